package verifsim

import (
	"fmt"
	"runtime"
	"sort"
	"strconv"
	"strings"
	"sync"
	"sync/atomic"
	"testing/synctest"

	"github.com/bitcoin-sv/block-headers-service/domains"
	"github.com/bitcoin-sv/block-headers-service/repository"
)

// schedsim: 2-3 submitter tasks and 1-2 reader tasks over the real chain service; every repository.Headers call
// is a yield point (the calling goroutine parks on a gate) and the tape decides which task proceeds, so a
// schedule at storage-operation granularity is a replayable, shrinkable artefact. Serves C15 (clause: valid
// views, serial outcome).

func init() {
	register(&Engine{Name: "schedsim", Props: []string{"C15"}, Exec: schedsimExec, Bubble: true})
}

type schedTask struct {
	id     int
	kind   string // sub | read
	method string // repository method it is parked at
	parked bool
	done   bool
	inTx   bool          // (sql-statement granularity) between BEGIN and COMMIT; touched by the task's goroutine only
	inAdd  atomic.Bool   // the submitter is inside Chains.Add (its own flag: no other task synchronises on it)
	rel    chan struct{} // the scheduler's go-ahead, per task: two tasks released together share nothing on their way
}

type schedSim struct {
	r      *Run
	mu     sync.Mutex
	byG    map[int64]*schedTask
	closed bool
}

// yield parks task t at method m until the scheduler releases it.
func (s *schedSim) yield(t *schedTask, m string) {
	s.mu.Lock()
	if s.closed {
		s.mu.Unlock()
		return
	}
	t.method, t.parked = m, true
	if t.rel == nil {
		t.rel = make(chan struct{}, 1)
	}
	rel := t.rel
	s.mu.Unlock()
	// durably blocked for the bubble; the scheduler marks the task as running when it sends. Nothing shared is
	// touched after the wake-up: two tasks released together stay unordered until they meet in the code under test
	<-rel
}

func (s *schedSim) release(t *schedTask) {
	s.mu.Lock()
	t.parked = false
	rel := t.rel
	s.mu.Unlock()
	rel <- struct{}{}
}

// goid returns the id of the calling goroutine (the yield hook has to know which task is calling; all tasks go
// through the one production chain service and the one repository).
func goid() int64 {
	var buf [64]byte
	n := runtime.Stack(buf[:], false)
	f := strings.Fields(string(buf[:n]))
	if len(f) < 2 {
		return -1
	}
	id, _ := strconv.ParseInt(f[1], 10, 64)
	return id
}

// sqlLabel is a short, stable name for a statement: its verb and the first characters that tell statements apart.
func sqlLabel(q string) string {
	f := strings.Fields(q)
	if len(f) == 0 {
		return "?"
	}
	out := strings.ToUpper(f[0])
	for i, w := range f {
		u := strings.ToUpper(w)
		if (u == "FROM" || u == "INTO" || u == "UPDATE" || u == "WHERE") && i+1 < len(f) {
			out += " " + u + " " + strings.Trim(f[i+1], "(),")
		}
	}
	if len(out) > 60 {
		out = out[:60]
	}
	return out
}

func (s *schedSim) bind(t *schedTask) {
	s.mu.Lock()
	if s.byG == nil {
		s.byG = map[int64]*schedTask{}
	}
	s.byG[goid()] = t
	s.mu.Unlock()
}

func (s *schedSim) hook(m string, _ bool) error {
	s.mu.Lock()
	t := s.byG[goid()]
	s.mu.Unlock()
	if t != nil {
		if !strings.HasPrefix(m, "sql:") {
			t.inTx = false // a repository call never starts inside a transaction (a rolled-back one is over by now)
		}
		s.yield(t, m)
	}
	return nil
}

func schedsimExec(r *Run) {
	t := r.T
	w := NewWorld(r)
	defer w.Destroy()
	s := &schedSim{r: r}
	w.WrapRepo = func(repo *repository.Repositories) {
		repo.Headers = &hookedHeaders{in: repo.Headers, Before: s.hook}
	}
	// a third of the runs (never the free-running race class) lower the yield points from repository calls to SQL
	// statements: the world sits on the wrapper driver, and a task also parks before every read statement, before
	// every BEGIN and before every write statement outside a transaction. Nothing parks between BEGIN and COMMIT (a
	// second writer would wait for the SQLite write lock in real time). A repository method made of two statements is
	// then two steps, and another task's committed write may land between them.
	sqlGrain := r.Opt["race"] != "1" && r.Opt["overlap"] != "1" && t.Chance(1, 3, "sql-statement-granularity")
	r.Cfg["granularity"] = map[bool]string{false: "repository-call", true: "sql-statement"}[sqlGrain]
	if sqlGrain {
		sqlQueryHook = func(q string) { _ = s.hook("sql:"+sqlLabel(q), false) }
		sqlHook = func(op, q string) {
			s.mu.Lock()
			tk := s.byG[goid()]
			s.mu.Unlock()
			if tk == nil {
				return
			}
			switch op {
			case "begin":
				s.yield(tk, "sql:BEGIN")
				tk.inTx = true
			case "exec":
				if !tk.inTx {
					s.yield(tk, "sql:"+sqlLabel(q))
				}
			case "committed":
				tk.inTx = false
			}
		}
		defer func() { sqlQueryHook, sqlHook = nil, nil }()
		w.OpenSim()
	} else {
		w.Open()
	}
	defer func() {
		s.mu.Lock()
		s.closed = true
		var parked []*schedTask
		for _, tk := range s.byG {
			if tk.parked && tk.rel != nil {
				tk.parked = false
				parked = append(parked, tk)
			}
		}
		s.mu.Unlock()
		for _, tk := range parked {
			select {
			case tk.rel <- struct{}{}:
			default:
			}
		}
		synctest.Wait()
	}()
	// a small pre-loaded store (sequential) so that forks and reorganisations are within reach
	h := NewHist(r, w)
	r.Opt = withOpt(r.Opt, "nozero", "1")
	h.DrawCfg(6)
	h.cfg.PRestart, h.cfg.PForbidden, h.cfg.PDefer, h.cfg.WUnknown, h.cfg.WOrphanExt, h.cfg.WPending = 0, 0, 0, 0, 0, 0
	h.cfg.Extremes = false
	for i := 0; i < t.Range(0, 5, "preload"); i++ {
		h.Submit(h.NewHeader(), "preload")
	}
	preload := len(h.m.Headers)
	// the headers the submitters will send: drawn against a scratch copy of the model so that later ones may build
	// on earlier ones of any submitter
	nSub := t.Range(2, 3, "submitters")
	nRead := t.Range(0, 2, "readers")
	total := t.Range(2, 7, "concurrent-headers")
	var pool []RawHeader
	scratch := NewHist(r, w)
	scratch.m = NewModel(genesisRaw())
	for _, x := range h.m.Headers[1:] {
		scratch.m.Submit(x.Raw)
	}
	scratch.cfg, scratch.palette, scratch.ctr = h.cfg, h.palette, h.ctr+1000
	for i := 0; i < total; i++ {
		raw := scratch.NewHeader()
		scratch.m.Submit(raw)
		pool = append(pool, raw)
	}
	// deal the headers to the submitters (each keeps pool order, parents may belong to another submitter;
	// overlapping: a header may be given to two submitters)
	seqs := make([][]RawHeader, nSub)
	for _, raw := range pool {
		k := t.Draw(nSub, "deal")
		seqs[k] = append(seqs[k], raw)
		if t.Chance(1, 6, "overlap") {
			k2 := (k + 1) % nSub
			seqs[k2] = append(seqs[k2], raw)
		}
	}
	r.Cfg["submitters"] = nSub
	r.Cfg["readers"] = nRead
	r.Cfg["headers"] = total
	r.Cfg["preload"] = preload - 1
	baseRepo := w.Repo.Headers
	var tasks []*schedTask
	type readObs struct {
		task  int
		hash  string
		state string
		valid string
		tipAt string
	}
	var obs []readObs
	var obsMu sync.Mutex
	panics := []string{}
	// submitters
	for i := 0; i < nSub; i++ {
		tk := &schedTask{id: len(tasks), kind: "sub"}
		tasks = append(tasks, tk)
		chains := w.Svc.Chains
		seq := seqs[i]
		go func() {
			s.bind(tk)
			defer func() {
				if p := recover(); p != nil {
					obsMu.Lock()
					panics = append(panics, fmt.Sprint(p))
					obsMu.Unlock()
				}
				s.mu.Lock()
				tk.done = true
				s.mu.Unlock()
			}()
			for _, raw := range seq {
				s.yield(tk, "begin-add") // harness yield point between two submissions
				tk.inAdd.Store(true)
				_, _ = chains.Add(toSource(raw))
				tk.inAdd.Store(false)
			}
		}()
	}
	// readers
	for i := 0; i < nRead; i++ {
		tk := &schedTask{id: len(tasks), kind: "read"}
		tasks = append(tasks, tk)
		repo := baseRepo
		nr := t.Range(1, 4, "reads")
		go func() {
			s.bind(tk)
			defer func() {
				s.mu.Lock()
				tk.done = true
				s.mu.Unlock()
			}()
			for k := 0; k < nr; k++ {
				var tip *domains.BlockHeader
				tip, _ = repo.GetTip()
				// the store at the very moment of the read (no other task runs: one task at a time)
				rows := w.Snapshot()
				o := readObs{task: tk.id, valid: structuralCheck(rows)}
				if tip != nil {
					o.hash, o.state = tip.Hash.String(), rows[tip.Hash.String()].State
				}
				obsMu.Lock()
				obs = append(obs, o)
				obsMu.Unlock()
			}
		}()
	}
	// the scheduler: exactly one task runs between two quiescent points
	policy := []string{"random", "round-robin", "run-long"}[t.Pick([]int{60, 20, 20}, "policy")]
	r.Cfg["policy"] = policy
	// Chains.Add is not safe for concurrent callers (recorded known finding). The default engine funnels all Add
	// calls through one goroutine; that is the main class here: submissions do not overlap each other, readers
	// interleave with them at every repository call. Overlapping submissions run in one run out of eight.
	overlap := t.Chance(1, 8, "overlapping-adds")
	if r.Opt["overlap"] == "1" {
		overlap = true
	}
	if sqlGrain {
		overlap = false // (two writers parked around one SQLite write lock would wait for each other in real time)
		r.Probe("sql-statement-granularity")
	}
	r.Cfg["overlapping_adds"] = overlap
	last := -1
	var schedule []string
	// C03 under concurrency: whatever the callers do to each other, a stored row keeps every field except its
	// label and never disappears (checked at every quiescent point, i.e. after every single repository call)
	frozen := map[string]Row{}
	checkFrozen := func() {
		for hs, row := range w.Snapshot() {
			row.State = ""
			if old, ok := frozen[hs]; !ok {
				frozen[hs] = row
			} else if old != row {
				r.Fail("C03", "row-changed-under-concurrency", fmt.Sprintf("overlap=%v", overlap), "stored header %s changed after it was stored: was %+v, is %+v (schedule %v)", hs[:8], old, row, schedule)
			}
		}
	}
	for step := 0; step < 2000; step++ {
		synctest.Wait()
		checkFrozen()
		var ready []*schedTask
		s.mu.Lock()
		alive := 0
		for _, tk := range tasks {
			if !tk.done {
				alive++
			}
			if tk.parked && !tk.done {
				ready = append(ready, tk)
			}
		}
		if !overlap {
			busy := false
			for _, tk := range tasks {
				if tk.inAdd.Load() && !tk.done {
					busy = true
				}
			}
			if busy {
				var f []*schedTask
				for _, tk := range ready {
					if !(tk.kind == "sub" && tk.method == "begin-add") {
						f = append(f, tk)
					}
				}
				ready = f
			}
		}
		s.mu.Unlock()
		if alive == 0 {
			break
		}
		if len(ready) == 0 {
			r.Fail("C15", "stuck", "no-task-ready", "%d tasks alive, none parked at a repository call (blocked on each other?)", alive)
		}
		sort.Slice(ready, func(i, j int) bool { return ready[i].id < ready[j].id })
		var pick *schedTask
		switch policy {
		case "round-robin":
			pick = ready[0]
			for _, tk := range ready {
				if tk.id > last {
					pick = tk
					break
				}
			}
		case "run-long":
			for _, tk := range ready {
				if tk.id == last && !t.Chance(1, 5, "preempt") {
					pick = tk
				}
			}
			if pick == nil {
				pick = ready[t.Draw(len(ready), "pick")]
			}
		default:
			pick = ready[t.Draw(len(ready), "pick")]
		}
		last = pick.id
		r.Step++
		schedule = append(schedule, fmt.Sprintf("%d:%s", pick.id, pick.method))
		r.Logf("run task %d (%s) at %s", pick.id, pick.kind, pick.method)
		if r.Opt["race"] == "1" && overlap && pick.method == "begin-add" {
			// race class: every submitter that is about to enter Chains.Add enters it together with this one,
			// with nothing ordering them (what the experimental engine's reader goroutines do): the stretch of
			// Add up to its first repository call - hashing the header - then runs unordered, and the race
			// detector sees whatever state those callers share
			for _, tk := range ready {
				if tk != pick && tk.kind == "sub" && tk.method == "begin-add" {
					schedule = append(schedule, fmt.Sprintf("%d:%s(co)", tk.id, tk.method))
					r.Probe("co-released-submitters")
					s.release(tk)
				}
			}
		}
		s.release(pick)
	}
	synctest.Wait()
	if len(panics) > 0 {
		r.Fail("C15", "crash", "submitter-panic", "a submitter crashed: %s", panics[0])
	}
	// ---- oracle 1: reader views
	for _, o := range obs {
		if o.valid != "" {
			r.Fail("C15", "reader-saw-invalid-chain", fmt.Sprintf("overlap=%v", overlap), "while reader %d took the tip the store was structurally invalid: %s", o.task, o.valid)
		}
		if o.hash == "" || o.state != LLongest {
			r.Fail("C15", "reader-tip-not-longest", fmt.Sprintf("overlap=%v,%s", overlap, o.state), "reader %d got tip %s whose state at that moment was %q", o.task, o.hash, o.state)
		}
	}
	// ---- oracle 2: serial outcome
	rows := w.Snapshot()
	if msg := structuralCheck(rows); msg != "" {
		r.Fail("C15", "final-structure", fmt.Sprintf("overlap=%v", overlap), "after all submitters finished: %s (schedule %v)", msg, schedule)
	}
	// distinct submitted headers
	seen := map[Hash32]bool{}
	var uniq []RawHeader
	for _, raw := range pool {
		if !seen[raw.Hash()] {
			seen[raw.Hash()] = true
			uniq = append(uniq, raw)
		}
	}
	if !matchesSomeOrder(h.m, uniq, rows) {
		r.Fail("C15", "not-serializable", fmt.Sprintf("overlap=%v", overlap), "the final store equals the result of no sequential order of the %d submitted headers (schedule %v); rows: %s", len(uniq), schedule, rowsSummary(rows))
	}
	r.Shape = schedule
	r.Nontrivial = len(schedule) >= 6 && nSub >= 2 && total >= 2
}

func rowsSummary(rows map[string]Row) string {
	var rs []Row
	for _, x := range rows {
		rs = append(rs, x)
	}
	sort.Slice(rs, func(i, j int) bool {
		if rs[i].Height != rs[j].Height {
			return rs[i].Height < rs[j].Height
		}
		return rs[i].Hash < rs[j].Hash
	})
	var sb strings.Builder
	for _, x := range rs {
		fmt.Fprintf(&sb, "%d:%s:%s ", x.Height, x.Hash[:6], x.State[:2])
	}
	return sb.String()
}

// matchesSomeOrder: brute force over the permutations of the submitted headers on top of the pre-loaded model.
func matchesSomeOrder(pre *Model, hs []RawHeader, rows map[string]Row) bool {
	n := len(hs)
	idx := make([]int, n)
	for i := range idx {
		idx[i] = i
	}
	var rec func(k int) bool
	try := func() bool {
		m := NewModel(genesisRaw())
		for _, x := range pre.Headers[1:] {
			m.Submit(x.Raw)
		}
		for _, i := range idx {
			m.Submit(hs[i])
		}
		if len(m.Headers) != len(rows) {
			return false
		}
		for _, x := range m.Headers {
			row, ok := rows[x.HashStr()]
			if !ok || row.State != x.Label || row.Height != int64(x.Height) || row.Cumulated != x.Cum.String() {
				return false
			}
		}
		return true
	}
	rec = func(k int) bool {
		if k == n {
			return try()
		}
		for i := k; i < n; i++ {
			idx[k], idx[i] = idx[i], idx[k]
			if rec(k + 1) {
				return true
			}
			idx[k], idx[i] = idx[i], idx[k]
		}
		return false
	}
	return rec(0)
}
