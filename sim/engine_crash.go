package verifsim

import (
	"errors"
	"fmt"
	"sort"
	"strconv"
	"strings"

	"github.com/bitcoin-sv/block-headers-service/domains"
	"github.com/bitcoin-sv/block-headers-service/repository"
)

// crashsim: a history H is ingested uninterrupted into a reference store (final state S_R, itself checked
// against the model); then H is ingested into a fresh store while the simulator kills the process or fails a
// storage call at a chosen repository-call boundary; restart, structural/durability checks, full redelivery,
// comparison with S_R. Serves C05.

func init() {
	register(&Engine{Name: "crashsim", Props: []string{"C05"}, Exec: crashsimExec})
}

type crashPanic struct{ site string }

var errInjected = errors.New("verifsim: injected storage failure")

const (
	kCrashBefore = "crash-before"
	kCrashAfter  = "crash-after"
	kErrBefore   = "error-before"
	kErrAfter    = "error-after"
	kReadErr     = "read-error"
)

type faultSpec struct {
	K    int    // index of the storage call (counted over all repository.Headers calls made by ingestion)
	Kind string // one of the k* constants
}

type callRec struct {
	Site  string
	Write bool
}

// callTracer counts repository calls per Add and injects the planned faults.
type callTracer struct {
	curSite  string
	r        *Run
	n        int            // global call counter
	perAdd   map[string]int // ordinal of each method within the current Add
	calls    []callRec      // recorded (reference pass only)
	record   bool
	plan     []faultSpec
	fired    []string
	inReorg  bool // an UpdateState was seen in the current Add
	firedIn  []bool
	disabled bool
}

func (c *callTracer) beginAdd() { c.perAdd = map[string]int{}; c.inReorg = false }

func (c *callTracer) site(m string) string { return fmt.Sprintf("%s#%d", m, c.perAdd[m]) }

func (c *callTracer) before(m string, write bool) error {
	if c.disabled {
		return nil
	}
	if c.perAdd == nil {
		c.perAdd = map[string]int{}
	}
	c.perAdd[m]++
	c.curSite = c.site(m)
	if m == "UpdateState" {
		c.inReorg = true
	}
	if c.record {
		c.calls = append(c.calls, callRec{c.site(m), write})
	}
	k := c.n
	c.n++
	for _, f := range c.plan {
		if f.K != k {
			continue
		}
		s := f.Kind + "@" + c.site(m)
		switch f.Kind {
		case kCrashBefore:
			c.fire(s)
			panic(crashPanic{s})
		case kErrBefore:
			if write {
				c.fire(s)
				return errInjected
			}
		case kReadErr:
			if !write {
				c.fire(s)
				return errInjected
			}
		}
	}
	return nil
}

func (c *callTracer) after(m string, write bool) error {
	if c.disabled {
		return nil
	}
	k := c.n - 1
	for _, f := range c.plan {
		if f.K != k {
			continue
		}
		s := f.Kind + "@" + c.site(m)
		switch f.Kind {
		case kCrashAfter:
			c.fire(s)
			panic(crashPanic{s})
		case kErrAfter:
			if write {
				c.fire(s)
				return errInjected
			}
		}
	}
	return nil
}

func (c *callTracer) fire(s string) {
	c.fired = append(c.fired, s)
	c.firedIn = append(c.firedIn, c.inReorg)
	c.r.Fault(strings.SplitN(s, "@", 2)[0])
	c.r.Logf("FAULT %s (call %d)", s, c.n-1)
}

func (c *callTracer) install(repo *repository.Repositories) {
	repo.Headers = &hookedHeaders{in: repo.Headers, Before: c.before, After: c.after}
}

// structuralCheck: exactly one LONGEST_CHAIN row at every height 0..tip, parent-linked, genesis at 0.
func structuralCheck(rows map[string]Row) string {
	byH := map[int64][]Row{}
	max := int64(-1)
	for _, r := range rows {
		if r.State == LLongest {
			byH[r.Height] = append(byH[r.Height], r)
			if r.Height > max {
				max = r.Height
			}
		}
	}
	if max < 0 {
		return "no LONGEST_CHAIN header at all"
	}
	for h := int64(0); h <= max; h++ {
		if len(byH[h]) != 1 {
			return fmt.Sprintf("%d LONGEST_CHAIN headers at height %d (tip height %d)", len(byH[h]), h, max)
		}
		if h > 0 && byH[h][0].Prev != byH[h-1][0].Hash {
			return fmt.Sprintf("LONGEST_CHAIN header at height %d does not link to the one at height %d", h, h-1)
		}
	}
	return ""
}

func crashsimExec(r *Run) {
	t := r.T
	// ---------------- phase 1: reference run
	// layer 2 (a third of the runs): the process dies at an SQL statement boundary inside a repository call
	layer2 := t.Chance(1, 3, "layer2")
	if r.Opt["layer2"] == "1" {
		layer2 = true
	} else if r.Opt["layer2"] == "0" {
		layer2 = false
	}
	r.Cfg["layer"] = map[bool]string{false: "repository calls", true: "SQL statements"}[layer2]
	openW := func(w *World) {
		if layer2 {
			w.OpenSim()
		} else {
			w.Open()
		}
	}
	defer func() { sqlHook = nil }()
	ref := NewWorld(r)
	defer ref.Destroy()
	refTr := &callTracer{r: r, record: true}
	ref.WrapRepo = refTr.install
	// SQL write-path events of the reference pass: (site, op)
	var sqlEvents []string
	sqlCount := 0
	sqlHook = func(op, q string) {
		if refTr.disabled || !layer2 {
			return
		}
		sqlCount++
		sqlEvents = append(sqlEvents, refTr.curSite+":"+op)
	}
	openW(ref)
	h := NewHist(r, ref)
	cap := 16
	if r.Tier == "thorough" {
		cap = 24
	}
	r.Opt = withOpt(r.Opt, "nozero", "1")
	h.DrawCfg(cap)
	// bias towards reorganisations
	h.cfg.WStaleExt += 25
	h.cfg.WForkDeep += 10
	h.cfg.PRestart = 0
	var subs []RawHeader
	var addBounds []int // call index at which each Add of the reference pass started
	h.AddFn = func(src domains.BlockHeaderSource) (*domains.BlockHeader, error) {
		// only the calls Chains.Add makes are storage boundaries of ingestion (the harness's own checks also
		// go through the repository and must not be counted)
		refTr.beginAdd()
		addBounds = append(addBounds, refTr.n)
		refTr.disabled = false
		defer func() { refTr.disabled = true }()
		return ref.Svc.Chains.Add(src)
	}
	origSubmit := len(subs)
	_ = origSubmit
	h.OnSubmit = func(raw RawHeader) { subs = append(subs, raw) }
	refTr.disabled = true
	for i := 0; h.StepOp(i); i++ {
	}
	// flush deferred headers so that H is closed under "children may arrive before parents"
	for len(h.pending) > 0 {
		raw := h.pending[0]
		h.pending = h.pending[1:]
		h.Submit(raw, "late")
	}
	refTr.disabled = true
	SR := ref.Snapshot()
	nCalls := refTr.n
	if msg := structuralCheck(SR); msg != "" {
		r.Fail("C01", "structure", "reference-run", "uninterrupted run ended structurally invalid: %s", msg)
	}
	var writeIdx, reorgIdx []int
	for i, c := range refTr.calls {
		if c.Write {
			writeIdx = append(writeIdx, i)
		}
		if strings.HasPrefix(c.Site, "UpdateState") {
			reorgIdx = append(reorgIdx, i)
		}
	}
	r.Cfg["H"] = len(subs)
	r.Cfg["ref_calls"] = nCalls
	r.Cfg["ref_writes"] = len(writeIdx)
	if len(subs) == 0 || nCalls == 0 {
		return
	}
	// ---------------- fault plan
	var plan []faultSpec
	sqlK := -1            // layer 2: index of the SQL write-path event at which the process dies
	sqlCommitErr := false // ... or at which (a COMMIT) the transaction fails instead
	if layer2 {
		if sqlCount == 0 {
			return
		}
		if sub := r.Opt["sub"]; sub != "" && strings.HasPrefix(sub, "sql:") {
			sqlK, _ = strconv.Atoi(strings.TrimPrefix(sub, "sql:"))
		} else {
			// bias into reorganisations: events whose site is an UpdateState call or the insert after one
			var inReorg []int
			for i, e := range sqlEvents {
				if strings.HasPrefix(e, "UpdateState") {
					inReorg = append(inReorg, i)
				}
			}
			if len(inReorg) > 0 && t.Chance(2, 3, "sql-in-reorg") {
				sqlK = inReorg[t.Draw(len(inReorg), "sql-reorg-event")]
			} else {
				sqlK = t.Draw(sqlCount, "sql-event")
			}
			// a quarter of these runs: not a kill but a COMMIT that fails (SQLITE_BUSY / SQLITE_FULL at the one moment
			// the statement itself can no longer notice); the transaction is rolled back and the error returned
			if t.Chance(1, 4, "sql-commit-error") {
				// ... or a write statement that fails inside its transaction (SQLITE_IOERR / SQLITE_FULL): the service's
				// own rollback path runs, and the process goes on
				var commits []int
				for i, e := range sqlEvents {
					if strings.HasSuffix(e, ":commit") || strings.HasSuffix(e, ":exec") {
						commits = append(commits, i)
					}
				}
				if len(commits) > 0 {
					sqlK = commits[t.Draw(len(commits), "sql-commit-event")]
					sqlCommitErr = true
				}
			}
			if r.Opt["enumerate"] == "1" {
				for i := 0; i < sqlCount; i++ {
					r.SubRuns = append(r.SubRuns, fmt.Sprintf("sql:%d", i))
				}
			}
		}
		r.Cfg["sql_events"] = sqlCount
	} else if sub := r.Opt["sub"]; sub != "" {
		// enumerated sub-run: "k:kind"
		p := strings.SplitN(sub, ":", 2)
		k, _ := strconv.Atoi(p[0])
		plan = []faultSpec{{K: k, Kind: p[1]}}
	} else {
		nf := 1 + t.Pick([]int{70, 20, 10}, "n-faults")
		if r.Opt["single"] == "1" {
			nf = 1
		}
		for i := 0; i < nf; i++ {
			var f faultSpec
			// read errors are outside the statement ("killed, or a storage write fails"); they are only injected
			// on request (opt readfaults=1) as an informational class
			kind := []string{kCrashAfter, kCrashBefore, kErrBefore, kErrAfter, kReadErr}[t.Pick([]int{30, 20, 20, 15, 15 * boolInt(r.Opt["readfaults"] == "1")}, "fault-kind")]
			f.Kind = kind
			switch {
			case kind == kReadErr:
				f.K = t.Draw(nCalls, "fault-k-any")
			case len(reorgIdx) > 0 && t.Chance(1, 2, "fault-in-reorg"):
				// inside a reorganisation: one of the UpdateState calls or the insert that follows
				j := reorgIdx[t.Draw(len(reorgIdx), "reorg-call")]
				f.K = j + t.Draw(2, "reorg-off")
			case len(writeIdx) > 0 && t.Chance(3, 4, "fault-at-write"):
				f.K = writeIdx[t.Draw(len(writeIdx), "write-call")]
			default:
				f.K = t.Draw(nCalls+nCalls/2+1, "fault-k-any") // may land in the redelivery pass
			}
			if i > 0 {
				f.K += t.Draw(nCalls, "later-fault-off")
			}
			plan = append(plan, f)
		}
		if r.Opt["enumerate"] == "1" {
			for _, k := range writeIdx {
				for _, kind := range []string{kCrashBefore, kCrashAfter, kErrBefore, kErrAfter} {
					r.SubRuns = append(r.SubRuns, fmt.Sprintf("%d:%s", k, kind))
				}
			}
			// a kill at a read boundary leaves the same durable state as a kill before the next write, which is enumerated
			if r.Opt["readfaults"] == "1" {
				for i, c := range refTr.calls {
					if !c.Write {
						r.SubRuns = append(r.SubRuns, fmt.Sprintf("%d:%s", i, kReadErr))
					}
				}
			}
		}
	}
	r.Cfg["plan"] = fmt.Sprint(plan)
	// delivery discipline after an error answer. "log and go on with the batch" is what both sync engines do (and
	// the recorded finding); a careful deliverer stops at the first error answer and starts again from the
	// beginning, so that no descendant is ever offered before its parent was stored: with it the statement must
	// hold for storage errors as it does for kills.
	careful := false
	for _, f := range plan {
		if f.Kind == kErrBefore || f.Kind == kErrAfter {
			careful = t.Chance(1, 2, "careful-delivery")
			break
		}
	}
	if sqlCommitErr {
		careful = true // (with "log and go on" a failed insert is the recorded finding)
	}
	r.Cfg["careful_delivery"] = careful
	// ---------------- phase 2: faulted run
	w := NewWorldKeepIgnore(r)
	defer w.Destroy()
	tr := &callTracer{r: r, plan: plan}
	w.WrapRepo = tr.install
	sqlSeen := 0
	sqlHook = func(op, q string) {
		if !layer2 || tr.disabled || tr.perAdd == nil {
			return
		}
		k := sqlSeen
		sqlSeen++
		if k == sqlK {
			s := "sqlcrash-before-" + op + "@" + tr.curSite
			if op == "committed" {
				s = "sqlcrash-after-commit@" + tr.curSite
			}
			sqlK = -1
			tr.fire(s)
			panic(crashPanic{s})
		}
	}
	if sqlCommitErr {
		sqlFail = func(op, q string) error {
			if (op != "commit" && op != "exec") || !layer2 || tr.disabled || tr.perAdd == nil || sqlSeen != sqlK {
				return nil
			}
			if want := sqlEvents[sqlK]; !strings.HasSuffix(want, ":"+op) {
				return nil // (the drawn event is of the other kind)
			}
			sqlK = -1
			tr.fire("sqlerror-" + op + "@" + tr.curSite)
			if op == "exec" {
				return errors.New("simnet: disk I/O error (SQLITE_IOERR) in a write statement")
			}
			return errors.New("simnet: database is locked (SQLITE_BUSY) at COMMIT")
		}
		defer func() { sqlFail = nil }()
		// (a lock left behind by a failed statement is answered with SQLITE_BUSY after 40 ms, not after 5 s)
		simBusyTimeoutMS = 40
		defer func() { simBusyTimeoutMS = 0 }()
	}
	openW(w)
	acked := map[string]RawHeader{}
	ackedBeforeFault := 0
	sigOf := func() string {
		if len(tr.fired) == 0 {
			return "no-fault-fired"
		}
		if careful {
			return "careful:" + strings.Join(tr.fired, "+")
		}
		return strings.Join(tr.fired, "+")
	}
	lastCls := ""
	restarts := 0
	// careful delivery: an error answer sends the deliverer back to the start of the history
	again := func() bool {
		if careful && strings.HasPrefix(lastCls, "error") && restarts < 12 {
			restarts++
			r.Probe("careful-restart-after-error")
			return true
		}
		return false
	}
	feed := func(raw RawHeader, pass string, strict bool) (crashed bool) {
		r.Step++
		tr.beginAdd()
		var got *domains.BlockHeader
		var err error
		defer func() {
			if p := recover(); p != nil {
				if _, ok := p.(crashPanic); ok {
					crashed = true
					return
				}
				panic(p)
			}
		}()
		pan, pv, st := guard(func() { got, err = w.Svc.Chains.Add(toSource(raw)) })
		if pan {
			if cp, ok := pv.(crashPanic); ok {
				panic(cp)
			}
			r.Fail("C05", "panic", sigOf()+"|"+panicSite(st), "%s: Chains.Add(%s) panicked: %v", pass, short(raw.Hash()), pv)
		}
		cls := answerClass(got, err)
		lastCls = cls
		r.Logf("%s %s -> %s", pass, short(raw.Hash()), cls)
		if cls == OutStored {
			acked[raw.Hash().String()] = raw
			if len(tr.fired) == 0 {
				ackedBeforeFault++
			}
		}
		if strict && strings.HasPrefix(cls, "error") {
			r.Fail("C05", "redelivery-stuck", sigOf(), "after the faults stopped, redelivered header %s is still answered with %s (%v)", short(raw.Hash()), cls, err)
		}
		return false
	}
	afterRestartChecks := func(when string) {
		before := w.TableDigest("headers")
		w.Close()
		tr.disabled = true
		openW(w)
		tr.disabled = false
		if after := w.TableDigest("headers"); after != before {
			r.Fail("C05", "restart-modified", sigOf(), "%s: database.Init on the existing file changed the headers table", when)
		}
		rows := w.Snapshot()
		if msg := structuralCheck(rows); msg != "" {
			r.Fail("C05", "structure-after-restart", sigOf(), "%s: %s", when, msg)
		}
		for hs, raw := range acked {
			row, ok := rows[hs]
			if !ok {
				r.Fail("C05", "acked-lost", sigOf(), "%s: acknowledged header %s is gone", when, hs[:8])
			}
			ts, _ := parseDBTime(row.Timestamp)
			if row.Prev != raw.Prev.String() || row.Merkle != raw.Merkle.String() || row.Version != int64(raw.Version) || row.Nonce != int64(raw.Nonce) || row.Bits != int64(raw.Bits) || ts != int64(raw.Time) {
				r.Fail("C05", "acked-altered", sigOf(), "%s: acknowledged header %s was altered: %+v", when, hs[:8], row)
			}
			if ref, ok := SR[hs]; ok && (row.Height != ref.Height || row.Cumulated != ref.Cumulated) && row.State != LOrphan && ref.State != LOrphan {
				r.Fail("C05", "acked-altered", sigOf(), "%s: acknowledged header %s has height/work %d/%s, uninterrupted run %d/%s", when, hs[:8], row.Height, row.Cumulated, ref.Height, ref.Cumulated)
			}
		}
	}
	// first pass
	crashes := 0
	for i := 0; i < len(subs); i++ {
		if feed(subs[i], "ingest", false) {
			crashes++
			r.Probe("crash")
			if tr.firedIn[len(tr.firedIn)-1] {
				r.Probe("crash-inside-reorg")
			}
			afterRestartChecks("after crash")
			// peers redeliver from the start
			i = -1
			if crashes > 4 {
				break
			}
		} else if again() {
			i = -1
		}
	}
	if crashes == 0 && careful && len(tr.fired) > 0 && tr.n > maxK(plan) && (!layer2 || sqlK < 0) {
		// nobody died: one storage call failed, the process lives on, the faults are over. Redelivery IN THE SAME
		// PROCESS must recover (a restart would close every connection and with it whatever the failed call left
		// behind - an open transaction, a lock, a held mutex)
		saved := tr.plan
		tr.plan = nil
		for _, raw := range subs {
			feed(raw, "redeliver-same-process", true)
		}
		if d := diffRows(w.Snapshot(), SR); d != "" {
			r.Fail("C05", "redelivery-diverged", sigOf()+"|same-process", "after redelivery in the same process (no restart) the store differs from the uninterrupted run: %s", d)
		}
		tr.plan = saved
		r.Probe("same-process-redelivery")
	}
	if crashes == 0 {
		afterRestartChecks("after the faulted pass")
	}
	// remaining planned faults may land in this redelivery pass
	for pass := 0; pass < 2 && tr.n <= maxK(plan); pass++ {
		for i := 0; i < len(subs); i++ {
			if feed(subs[i], "redeliver-faulty", false) {
				afterRestartChecks("after crash in redelivery")
				i = -1
				crashes++
				if crashes > 6 {
					break
				}
			} else if again() {
				i = -1
			}
		}
	}
	// faults are over: clean redelivery, twice (fixed point)
	tr.plan = nil
	for pass := 1; pass <= 2; pass++ {
		for _, raw := range subs {
			feed(raw, fmt.Sprintf("redeliver-%d", pass), true)
		}
		rows := w.Snapshot()
		if msg := structuralCheck(rows); msg != "" {
			r.Fail("C05", "structure-after-redelivery", sigOf(), "after redelivery pass %d: %s", pass, msg)
		}
		if d := diffRows(rows, SR); d != "" {
			r.Fail("C05", "redelivery-diverged", sigOf(), "after redelivery pass %d the store differs from the uninterrupted run: %s", pass, d)
		}
	}
	afterRestartChecks("final")
	if len(tr.fired) > 0 {
		inReorg := false
		for _, b := range tr.firedIn {
			inReorg = inReorg || b
		}
		r.Nontrivial = inReorg || (crashes > 0 && ackedBeforeFault > 0)
		if inReorg {
			r.Probe("fault-inside-reorg")
		}
	}
	r.Shape = append(h.ShapeLines(), "faults="+strings.Join(tr.fired, "+"))
}

func maxK(plan []faultSpec) int {
	m := -1
	for _, f := range plan {
		if f.K > m {
			m = f.K
		}
	}
	return m
}

func diffRows(got, want map[string]Row) string {
	var ks []string
	for k := range want {
		ks = append(ks, k)
	}
	sort.Strings(ks)
	for _, k := range ks {
		g, ok := got[k]
		wv := want[k]
		if !ok {
			return fmt.Sprintf("header %s (%s, height %d) missing", k[:8], wv.State, wv.Height)
		}
		if g.State != wv.State || g.Height != wv.Height || g.Cumulated != wv.Cumulated || g.Chainwork != wv.Chainwork || g.Prev != wv.Prev {
			return fmt.Sprintf("header %s is %s h=%d cum=%s, uninterrupted run has %s h=%d cum=%s", k[:8], g.State, g.Height, g.Cumulated, wv.State, wv.Height, wv.Cumulated)
		}
	}
	for k := range got {
		if _, ok := want[k]; !ok {
			return fmt.Sprintf("extra header %s", k[:8])
		}
	}
	return ""
}

func withOpt(m map[string]string, k, v string) map[string]string {
	out := map[string]string{}
	for a, b := range m {
		out[a] = b
	}
	out[k] = v
	return out
}
