package verifsim

import (
	"errors"
	"fmt"
	"net"
	"sort"
	"sync"
	"testing/synctest"
	"time"

	"github.com/bitcoin-sv/block-headers-service/transports/p2p/connmgr"
	"github.com/rs/zerolog"
)

// connsim: the connection manager (connmgr.New) with scripted Dial / GetNewAddress / OnConnection callbacks.
// Its goroutines (NewConnReq, Connect, the retry timers) are real; every call they make into a callback the
// simulator owns parks on a gate, and the tape decides which parked call proceeds next and with what outcome.
// Serves C18 (outbound target part).

func init() {
	register(&Engine{Name: "connsim", Props: []string{"C18"}, Exec: connsimExec, Bubble: true})
}

type connTask struct {
	kind     string // addr | dial
	addr     string
	seq      int
	released bool
	outcome  int // addr: index into universe or -1 (error); dial: 1 success, 0 refusal
}

type connSim struct {
	r       *Run
	mu      sync.Mutex
	cond    *sync.Cond
	parked  []*connTask
	seq     int
	closed  bool
	open    map[uint64]*simConn // established, by connreq id
	ids     []uint64
	banned  map[string]bool
	maxOpen int
	dials   int
	fails   int
}

func (s *connSim) park(kind, addr string) *connTask {
	s.mu.Lock()
	defer s.mu.Unlock()
	s.seq++
	t := &connTask{kind: kind, addr: addr, seq: s.seq}
	if s.closed {
		t.released, t.outcome = true, -1
		return t
	}
	s.parked = append(s.parked, t)
	for !t.released {
		s.cond.Wait()
	}
	return t
}

func (s *connSim) list() []*connTask {
	s.mu.Lock()
	defer s.mu.Unlock()
	out := append([]*connTask{}, s.parked...)
	// arrival order is decided by the Go runtime; the scheduler sees a canonical order
	sort.Slice(out, func(i, j int) bool {
		if out[i].kind != out[j].kind {
			return out[i].kind < out[j].kind
		}
		if out[i].addr != out[j].addr {
			return out[i].addr < out[j].addr
		}
		return out[i].seq < out[j].seq
	})
	return out
}

func (s *connSim) release(t *connTask, outcome int) {
	s.mu.Lock()
	t.released, t.outcome = true, outcome
	for i, p := range s.parked {
		if p == t {
			s.parked = append(s.parked[:i], s.parked[i+1:]...)
			break
		}
	}
	s.cond.Broadcast()
	s.mu.Unlock()
}

func (s *connSim) openCount() int {
	s.mu.Lock()
	defer s.mu.Unlock()
	n := 0
	for _, c := range s.open {
		if !c.wrClosed() {
			n++
		}
	}
	return n
}

// wrClosed reports whether this end was closed by its owner (the connection manager closes what it drops).
func (c *simConn) wrClosed() bool {
	c.wr.mu.Lock()
	defer c.wr.mu.Unlock()
	return c.wr.closed
}

func connsimExec(r *Run) {
	t := r.T
	start := time.Now()
	s := &connSim{r: r, open: map[uint64]*simConn{}, banned: map[string]bool{}}
	s.cond = sync.NewCond(&s.mu)
	target := t.Range(1, 8, "target")
	retry := time.Duration(t.Range(1, 50, "retry-ms")) * time.Millisecond
	withBan := t.Chance(3, 4, "with-ban-callback")
	nAddr := t.Range(1, 4, "universe")
	universe := []string{}
	for i := 0; i < nAddr; i++ {
		universe = append(universe, fmt.Sprintf("%d.%d.0.1:8333", 30+i, 40+i))
	}
	r.Cfg["target"] = target
	r.Cfg["retry"] = retry.String()
	r.Cfg["ban_callback"] = withBan
	r.Cfg["addresses"] = nAddr
	nop := zerolog.Nop()
	cfg := &connmgr.Config{
		TargetOutbound: uint32(target),
		RetryDuration:  retry,
		Logger:         &nop,
		GetNewAddress: func() (net.Addr, error) {
			tk := s.park("addr", "")
			if tk.outcome < 0 {
				return nil, errors.New("simnet: no valid connect address")
			}
			a, _ := net.ResolveTCPAddr("tcp", universe[tk.outcome])
			return a, nil
		},
		Dial: func(a net.Addr) (net.Conn, error) {
			tk := s.park("dial", a.String())
			if tk.outcome != 1 {
				return nil, errors.New("simnet: connection refused")
			}
			mine, _ := simPipe(simAddr{"cm"}, a)
			return mine, nil
		},
		OnConnection: func(c *connmgr.ConnReq, conn net.Conn, _ *zerolog.Logger) {
			s.mu.Lock()
			s.open[c.ID()] = conn.(*simConn)
			s.ids = append(s.ids, c.ID())
			s.mu.Unlock()
		},
	}
	if withBan {
		cfg.BanAddress = func(a string) {
			s.mu.Lock()
			s.banned[a] = true
			s.mu.Unlock()
			r.Probe("address-banned")
		}
	}
	cm, err := connmgr.New(cfg)
	if err != nil {
		Infra("connmgr.New: %v", err)
	}
	cm.Start()
	defer func() {
		s.mu.Lock()
		s.closed = true
		for _, p := range s.parked {
			p.released, p.outcome = true, -1
		}
		s.parked = nil
		s.cond.Broadcast()
		s.mu.Unlock()
		cm.Stop()
		synctest.Wait()
	}()
	check := func(when string) {
		n := s.openCount()
		if n > s.maxOpen {
			s.maxOpen = n
		}
		if n > target {
			r.Fail("C18", "over-target", when, "%d outbound connections are established, the target is %d", n, target)
		}
	}
	usable := func() []int {
		var out []int
		s.mu.Lock()
		for i, a := range universe {
			if !s.banned[a] {
				out = append(out, i)
			}
		}
		s.mu.Unlock()
		return out
	}
	pFail := t.Range(0, 90, "p-dial-fail")
	pNoAddr := t.Range(0, 30, "p-no-addr")
	var gone []uint64 // ids whose disconnect has been reported once
	stepOnce := func(healing bool) bool {
		synctest.Wait()
		check("fault-phase")
		tasks := s.list()
		type ev struct {
			kind string
			tk   *connTask
			w    int
		}
		var evs []ev
		for _, tk := range tasks {
			evs = append(evs, ev{"release", tk, 20})
		}
		open := []uint64{}
		s.mu.Lock()
		for _, id := range s.ids {
			if c := s.open[id]; c != nil && !c.wrClosed() {
				open = append(open, id)
			}
		}
		s.mu.Unlock()
		if !healing && len(open) > 0 {
			evs = append(evs, ev{"disconnect", nil, 6})
		}
		// the server reports the end of one connection from two places (peer done, failed add): the same id may be
		// disconnected twice
		if !healing && len(gone) > 0 {
			evs = append(evs, ev{"disconnect-again", nil, 3})
		}
		evs = append(evs, ev{"clock", nil, 6})
		ws := make([]int, len(evs))
		for i, e := range evs {
			ws[i] = e.w
		}
		e := evs[t.Pick(ws, "event")]
		r.Step++
		switch e.kind {
		case "release":
			tk := e.tk
			if tk.kind == "addr" {
				us := usable()
				if len(us) == 0 || (!healing && t.Chance(pNoAddr, 100, "no-addr")) {
					r.Logf("getaddress -> none")
					r.Fault("no-address")
					s.release(tk, -1)
				} else {
					i := us[t.Draw(len(us), "addr-idx")]
					r.Logf("getaddress -> %s", universe[i])
					s.release(tk, i)
				}
			} else {
				if !healing && t.Chance(pFail, 100, "dial-fails") {
					s.fails++
					r.Logf("dial %s -> refused", tk.addr)
					r.Fault("dial-refused")
					s.release(tk, 0)
				} else {
					s.dials++
					r.Logf("dial %s -> connected", tk.addr)
					s.release(tk, 1)
				}
			}
		case "disconnect":
			id := open[t.Draw(len(open), "disc-idx")]
			r.Logf("disconnect connreq (peer done), %d open", len(open))
			r.Fault("disconnect")
			cm.Disconnect(id)
			gone = append(gone, id)
		case "disconnect-again":
			k := t.Draw(len(gone), "gone-idx")
			id := gone[k]
			// (the ids themselves are handed out by concurrent goroutines of the manager and differ between runs;
			// the order of the disconnects does not)
			r.Logf("disconnect #%d of this run reported a second time", k+1)
			r.Fault("disconnect-reported-twice")
			cm.Disconnect(id)
		case "clock":
			d := time.Duration(t.Range(1, 200, "clock-ms")) * time.Millisecond
			if t.Chance(1, 6, "long-clock") {
				d = time.Duration(t.Range(1, 400, "clock-s")) * time.Second
			}
			r.Logf("clock +%v", d)
			time.Sleep(d)
		}
		return true
	}
	n := t.Range(10, 300, "fault-steps")
	for i := 0; i < n; i++ {
		if !t.Chance(59, 60, "more") && i > 5 {
			break
		}
		stepOnce(false)
	}
	// faults stop: fresh addresses appear (a real address manager keeps learning addresses), every dial succeeds
	for i := 0; i < target+2; i++ {
		universe = append(universe, fmt.Sprintf("%d.%d.0.1:8333", 60+i, 70+i))
	}
	r.Logf("HEAL: dials succeed, %d fresh addresses", target+2)
	deadline := time.Now().Add(30 * time.Minute)
	for k := 0; k < 4000 && time.Now().Before(deadline); k++ {
		synctest.Wait()
		check("healing")
		if s.openCount() == target && len(s.list()) == 0 {
			break
		}
		if len(s.list()) == 0 {
			time.Sleep(maxDur(retry, 100*time.Millisecond))
			continue
		}
		stepOnce(true)
	}
	synctest.Wait()
	check("end")
	if got := s.openCount(); got != target {
		s.mu.Lock()
		nb := len(s.banned)
		s.mu.Unlock()
		r.Fail("C18", "target-not-reached", fmt.Sprintf("ban-callback=%v,banned>0=%v", withBan, nb > 0), "30 simulated minutes after dials stopped failing, %d of %d target outbound connections are established and no address request or dial is pending (addresses banned: %d, refused dials: %d)", got, target, nb, s.fails)
	}
	r.SimTime = time.Since(start)
	r.Shape = r.Trace
	r.Nontrivial = s.fails > 0 && s.dials > target
}

func maxDur(a, b time.Duration) time.Duration {
	if a > b {
		return a
	}
	return b
}
