package verifsim

import (
	"bytes"
	"crypto/sha256"
	"encoding/binary"
	"errors"
	"fmt"
	"io"
	"net"
	"reflect"
	"runtime"
	"strings"
	"sync"
	"time"

	"github.com/bitcoin-sv/block-headers-service/internal/chaincfg/chainhash"
	"github.com/bitcoin-sv/block-headers-service/internal/wire"
)

// wiresim: the wire codec over a simulated byte stream whose chunking, truncation, corruption and errors come
// from the tape. Fault-free class: decode(encode(m)) = m and re-encode = bytes under arbitrary fragmentation.
// Fault class: hostile streams are answered with an error or a message, never a panic, a hang or an allocation
// beyond the declared payload limit. Serves C14.

func init() {
	register(&Engine{Name: "wiresim", Props: []string{"C14"}, Exec: wiresimExec})
}

// simStream is the io.Reader the decoder reads from.
type simStream struct {
	data    []byte
	pos     int
	policy  int // 0 whole, 1 one byte, 2 small, 3 medium
	rng     *PRNG
	reads   int
	errAt   int // inject a read error once pos reaches errAt (-1: never)
	stalled bool
}

var errStream = errors.New("simnet: read error")

func (s *simStream) Read(p []byte) (int, error) {
	s.reads++
	if s.errAt >= 0 && s.pos >= s.errAt {
		return 0, errStream
	}
	if s.pos >= len(s.data) {
		return 0, io.EOF
	}
	if len(p) == 0 {
		return 0, nil
	}
	n := len(p)
	switch s.policy {
	case 1:
		n = 1
	case 2:
		n = 1 + int(s.rng.Next()%7)
	case 3:
		n = 1 + int(s.rng.Next()%1500)
	}
	if n > len(p) {
		n = len(p)
	}
	if n > len(s.data)-s.pos {
		n = len(s.data) - s.pos
	}
	if s.errAt >= 0 && s.pos+n > s.errAt {
		n = s.errAt - s.pos
		if n == 0 {
			return 0, errStream
		}
	}
	copy(p, s.data[s.pos:s.pos+n])
	s.pos += n
	return n, nil
}

// protocol limits per command, from the protocol (not read from the implementation); overall limit from the
// configured excessive block size.
func ownLimit(cmd string, pver uint32, ebs uint32) uint64 {
	overall := uint64(ebs/1000000) * 1024 * 1024 * 2
	na := uint64(26)
	if pver >= 31402 {
		na = 30
	}
	switch cmd {
	case "version":
		return 33 + 2*na + 9 + 256
	case "verack", "getaddr", "mempool", "sendheaders":
		return 0
	case "addr":
		return 9 + 1000*na
	case "getheaders", "getblocks":
		return 4 + 9 + 500*32 + 32
	case "headers":
		return 9 + 2000*81
	case "inv", "getdata", "notfound":
		return 9 + 50000*36
	case "ping", "pong", "feefilter":
		return 8
	case "reject":
		return overall
	}
	return overall
}

var wirePvers = []uint32{70013, 70012, 70002, 70001, 60002, 31800, 209}

func canon(v reflect.Value, sb *strings.Builder) {
	switch v.Kind() {
	case reflect.Ptr, reflect.Interface:
		if v.IsNil() {
			sb.WriteString("nil")
			return
		}
		canon(v.Elem(), sb)
	case reflect.Struct:
		if t, ok := v.Interface().(time.Time); ok {
			fmt.Fprintf(sb, "T%d.%d", t.Unix(), t.Nanosecond())
			return
		}
		sb.WriteString("{")
		for i := 0; i < v.NumField(); i++ {
			sb.WriteString(v.Type().Field(i).Name + ":")
			canon(v.Field(i), sb)
			sb.WriteString(",")
		}
		sb.WriteString("}")
	case reflect.Slice:
		if ip, ok := v.Interface().(net.IP); ok {
			fmt.Fprintf(sb, "IP%x", []byte(ip.To16()))
			return
		}
		if v.Type().Elem().Kind() == reflect.Uint8 {
			fmt.Fprintf(sb, "%x", v.Bytes())
			return
		}
		sb.WriteString("[")
		for i := 0; i < v.Len(); i++ {
			canon(v.Index(i), sb)
			sb.WriteString(",")
		}
		sb.WriteString("]")
	case reflect.Array:
		sb.WriteString("[")
		for i := 0; i < v.Len(); i++ {
			fmt.Fprintf(sb, "%v,", v.Index(i).Interface())
		}
		sb.WriteString("]")
	default:
		fmt.Fprintf(sb, "%v", v.Interface())
	}
}

func canonMsg(m wire.Message) string {
	var sb strings.Builder
	sb.WriteString(m.Command() + ":")
	canon(reflect.ValueOf(m), &sb)
	return sb.String()
}

type wireSim struct {
	r         *Run
	ctr       uint64
	ebs       uint32
	forceKind string // a directed fault kind (race class)
}

func (s *wireSim) hash() chainhash.Hash {
	s.ctr++
	var b [16]byte
	binary.LittleEndian.PutUint64(b[:8], s.r.Seed)
	binary.LittleEndian.PutUint64(b[8:], s.ctr)
	return chainhash.Hash(sha256.Sum256(b[:]))
}

func (s *wireSim) netAddr(withTime bool) *wire.NetAddress {
	t := s.r.T
	var ip net.IP
	if t.Chance(1, 2, "v6") {
		h := s.hash()
		ip = net.IP(h[:16])
	} else {
		ip = net.IPv4(byte(t.Draw(256, "ip")), byte(t.Draw(256, "ip")), byte(t.Draw(256, "ip")), byte(t.Draw(256, "ip")))
		if t.Chance(1, 2, "ipv4-4-byte-form") {
			ip = ip.To4() // the 4-byte form, as the IP of a *net.TCPAddr of a real IPv4 socket
		}
	}
	na := &wire.NetAddress{Services: wire.ServiceFlag(t.U32("svc")), IP: ip, Port: uint16(t.Draw(65536, "port"))}
	if withTime {
		na.Timestamp = time.Unix(int64(t.U32("ts")), 0)
	}
	return na
}

func (s *wireSim) count(max int, label string) int {
	t := s.r.T
	switch t.Pick([]int{20, 50, 20, 10}, label+"-class") {
	case 0:
		return 0
	case 1:
		return t.Range(1, min(max, 5), label)
	case 2:
		return t.Range(1, min(max, 300), label)
	}
	if t.Chance(1, 4, label+"-max") {
		return max
	}
	return t.Range(1, max, label)
}

// genMessage draws a message of one of the listed kinds with fields valid at pver; nil if the kind does not
// exist at that version.
func (s *wireSim) genMessage(pver uint32) wire.Message {
	t := s.r.T
	kinds := []string{"version", "verack", "getaddr", "addr", "getheaders", "getblocks", "headers", "inv", "getdata", "notfound", "ping", "pong", "reject", "sendheaders", "feefilter", "mempool"}
	switch kinds[t.Draw(len(kinds), "kind")] {
	case "version":
		m := &wire.MsgVersion{ProtocolVersion: int32(t.U32("pv")), Services: wire.ServiceFlag(uint64(t.U32("svc"))<<32 | uint64(t.U32("svc"))),
			Timestamp: time.Unix(int64(t.U32("ts"))-int64(t.Draw(2, "neg-ts"))*5000000000, 0), Nonce: uint64(t.U32("n"))<<32 | uint64(t.U32("n")), LastBlock: int32(t.U32("lb"))}
		m.AddrYou, m.AddrMe = *s.netAddr(false), *s.netAddr(false)
		ua := strings.Repeat("a", []int{0, 1, 17, 255, 256}[t.Draw(5, "ua-len")])
		if len(ua) > 2 && t.Chance(1, 2, "ua-utf8") {
			ua = "/é" + ua[4:] + "/" // same byte length, multi-byte rune inside
		}
		m.UserAgent = ua
		if pver >= wire.BIP0037Version {
			m.DisableRelayTx = t.Chance(1, 2, "relay")
		}
		return m
	case "verack":
		return wire.NewMsgVerAck()
	case "getaddr":
		return wire.NewMsgGetAddr()
	case "addr":
		m := wire.NewMsgAddr()
		max := 1000
		if pver < wire.MultipleAddressVersion {
			max = 1
		}
		for i, n := 0, s.count(max, "addr-n"); i < n; i++ {
			m.AddrList = append(m.AddrList, s.netAddr(pver >= wire.NetAddressTimeVersion))
		}
		return m
	case "getheaders", "getblocks":
		stop := chainhash.Hash{}
		if t.Chance(1, 2, "stop") {
			stop = s.hash()
		}
		var loc []*chainhash.Hash
		for i, n := 0, s.count(500, "loc-n"); i < n; i++ {
			h := s.hash()
			loc = append(loc, &h)
		}
		if t.Chance(1, 2, "gh-or-gb") {
			return &wire.MsgGetHeaders{ProtocolVersion: t.U32("pv"), BlockLocatorHashes: loc, HashStop: stop}
		}
		return &wire.MsgGetBlocks{ProtocolVersion: t.U32("pv"), BlockLocatorHashes: loc, HashStop: stop}
	case "headers":
		m := wire.NewMsgHeaders()
		for i, n := 0, s.count(2000, "hdr-n"); i < n; i++ {
			m.Headers = append(m.Headers, &wire.BlockHeader{Version: int32(s.ctr*2654435761 + uint64(i)), PrevBlock: s.hash(), MerkleRoot: s.hash(),
				Timestamp: time.Unix(int64(uint32(s.ctr*40503)), 0), Bits: uint32(s.ctr * 97), Nonce: uint32(s.ctr * 31)})
		}
		if len(m.Headers) > 0 && t.Chance(1, 2, "extreme-header") {
			m.Headers[0].Version = -2147483648
			m.Headers[0].Timestamp = time.Unix(int64([]uint32{0, 0x7fffffff, 0x80000000, 0xffffffff}[t.Draw(4, "ts")]), 0)
			m.Headers[0].Bits, m.Headers[0].Nonce = 0xffffffff, 0xffffffff
		}
		return m
	case "inv", "getdata", "notfound":
		var list []*wire.InvVect
		for i, n := 0, s.count(50000, "inv-n"); i < n; i++ {
			h := s.hash()
			list = append(list, wire.NewInvVect(wire.InvType(i%5), &h))
		}
		switch t.Draw(3, "inv-kind") {
		case 0:
			return &wire.MsgInv{InvList: list}
		case 1:
			return &wire.MsgGetData{InvList: list}
		}
		return &wire.MsgNotFound{InvList: list}
	case "ping":
		m := &wire.MsgPing{}
		if pver > wire.BIP0031Version {
			m.Nonce = uint64(t.U32("n"))<<32 | uint64(t.U32("n"))
		}
		return m
	case "pong":
		if pver <= wire.BIP0031Version {
			return nil
		}
		return &wire.MsgPong{Nonce: uint64(t.U32("n"))<<32 | uint64(t.U32("n"))}
	case "reject":
		if pver < wire.RejectVersion {
			return nil
		}
		cmd := []string{"block", "tx", "version", "headers", ""}[t.Draw(5, "rej-cmd")]
		m := wire.NewMsgReject(cmd, wire.RejectCode(t.Draw(256, "code")), strings.Repeat("r", []int{0, 1, 80, 3000}[t.Draw(4, "reason-len")]))
		if cmd == "block" || cmd == "tx" {
			m.Hash = s.hash()
		}
		return m
	case "sendheaders":
		if pver < wire.SendHeadersVersion {
			return nil
		}
		return wire.NewMsgSendHeaders()
	case "feefilter":
		if pver < wire.FeeFilterVersion {
			return nil
		}
		return wire.NewMsgFeeFilter(int64(t.U32("fee"))<<31 - int64(t.U32("fee")))
	case "mempool":
		if pver < wire.BIP0035Version {
			return nil
		}
		return wire.NewMsgMemPool()
	}
	return nil
}

type decodeResult struct {
	msg     wire.Message
	payload []byte
	n       int
	err     error
	pan     any
	stack   string
	alloc   uint64
	reads   int
	hang    bool
}

// decode runs ReadMessageWithEncodingN on the stream with panic, hang and allocation accounting.
func decode(st *simStream, pver uint32, net wire.BitcoinNet) decodeResult {
	var res decodeResult
	done := make(chan struct{})
	var m0, m1 runtime.MemStats
	runtime.ReadMemStats(&m0)
	go func() {
		defer close(done)
		pan, pv, stack := guard(func() {
			res.n, res.msg, res.payload, res.err = wire.ReadMessageWithEncodingN(st, pver, net, wire.BaseEncoding)
		})
		if pan {
			res.pan, res.stack = pv, stack
		}
	}()
	select {
	case <-done:
	case <-time.After(30 * time.Second):
		res.hang = true
		return res
	}
	runtime.ReadMemStats(&m1)
	res.alloc = m1.TotalAlloc - m0.TotalAlloc
	res.reads = st.reads
	return res
}

func wiresimExec(r *Run) {
	t := r.T
	s := &wireSim{r: r}
	s.ebs = []uint32{1000000, 4000000, 32000000}[t.Pick([]int{60, 30, 10}, "ebs")]
	wire.SetLimits(s.ebs)
	r.Cfg["ebs"] = s.ebs
	faulty := t.Chance(1, 2, "fault-class")
	if r.Opt["class"] == "clean" {
		faulty = false
	}
	r.Cfg["class"] = map[bool]string{false: "fault-free", true: "fault-injecting"}[faulty]
	bsvnet := wire.MainNet
	nmsg := t.Range(1, 6, "n-msg")
	kindsSeen := map[string]bool{}
	faultsSeen := map[string]bool{}
	for i := 0; i < nmsg; i++ {
		r.Step++
		pver := wirePvers[t.Pick([]int{40, 10, 10, 10, 10, 10, 10}, "pver")]
		m := s.genMessage(pver)
		if m == nil {
			continue
		}
		var buf bytes.Buffer
		if err := wire.WriteMessage(&buf, m, pver, bsvnet); err != nil {
			// an encode refusal inside protocol limits is a violation of the round-trip clause
			r.Fail("C14", "encode-refused", m.Command(), "WriteMessage(%s, pver %d) refused a message within protocol limits: %v", m.Command(), pver, err)
		}
		frame := buf.Bytes()
		kindsSeen[m.Command()] = true
		if !faulty {
			s.cleanCheck(m, frame, pver, bsvnet)
			continue
		}
		fk := s.faultCheck(m, frame, pver, bsvnet)
		faultsSeen[fk] = true
	}
	s.sharedScratchProbe(bsvnet)
	if r.Opt["race"] == "1" {
		// every run of this class carries its own hostile frames (so that a report replays from this run's tape
		// alone, whatever earlier runs of the worker process left behind): two directed ones, then the goroutines
		for i := 0; i < 2; i++ {
			pver := wirePvers[t.Pick([]int{40, 10, 10, 10, 10, 10, 10}, "pver")]
			if m := s.genMessage(pver); m != nil {
				var buf bytes.Buffer
				if err := wire.WriteMessage(&buf, m, pver, bsvnet); err == nil {
					s.forceKind = []string{"short-payload", "truncate", "read-error"}[t.Draw(3, "race-fault")]
					s.faultCheck(m, buf.Bytes(), pver, bsvnet)
					s.forceKind = ""
				}
			}
		}
		s.concurrentCodec(bsvnet)
	}
	r.Shape = r.Trace
	if faulty {
		r.Nontrivial = len(faultsSeen) >= 1
	} else {
		r.Nontrivial = len(kindsSeen) >= 2
	}
}

// reentrantWriter is a second user of the codec that gets its turn in the middle of a write of the first one: while the
// encoder is inside Write (it may be holding scratch memory it took from a pool shared by the whole process) another
// message is encoded and decoded, as a second peer's goroutine would do at that very moment. The bytes handed to
// Write must not change under the writer's hands.
type reentrantWriter struct {
	out     bytes.Buffer
	inside  bool
	changed string
	net     wire.BitcoinNet
	k       uint64
}

func (w *reentrantWriter) Write(p []byte) (int, error) {
	snap := append([]byte{}, p...)
	if !w.inside {
		w.inside = true
		w.k++
		var b bytes.Buffer
		other := wire.NewMsgPong(0xa5a5a5a500000000 | w.k)
		if err := wire.WriteMessage(&b, other, wire.ProtocolVersion, w.net); err == nil {
			_, _, _ = wire.ReadMessage(&b, wire.ProtocolVersion, w.net)
		}
		w.inside = false
	}
	if !bytes.Equal(snap, p) && w.changed == "" {
		w.changed = fmt.Sprintf("%x became %x", snap, p)
	}
	return w.out.Write(p)
}

// sharedScratchProbe: after whatever this run (and earlier runs of the process) fed to the decoder, two users of the
// codec at once still have to get their own bytes.
func (s *wireSim) sharedScratchProbe(bsvnet wire.BitcoinNet) {
	r := s.r
	nonce := uint64(0x1111111100000000) | uint64(r.Step)
	inv := wire.NewMsgInv()
	hh := s.hash()
	_ = inv.AddInvVect(wire.NewInvVect(wire.InvTypeBlock, &hh))
	for _, m := range []wire.Message{wire.NewMsgPing(nonce), inv} {
		w := &reentrantWriter{net: bsvnet}
		var err error
		switch x := m.(type) {
		case *wire.MsgPing:
			err = x.BsvEncode(w, wire.ProtocolVersion, wire.BaseEncoding)
		case *wire.MsgInv:
			err = x.BsvEncode(w, wire.ProtocolVersion, wire.BaseEncoding)
		}
		if err != nil {
			r.Fail("C14", "encode-refused", m.Command()+"|two-users", "encoding %s failed: %v", m.Command(), err)
		}
		var plain bytes.Buffer
		switch x := m.(type) {
		case *wire.MsgPing:
			_ = x.BsvEncode(&plain, wire.ProtocolVersion, wire.BaseEncoding)
		case *wire.MsgInv:
			_ = x.BsvEncode(&plain, wire.ProtocolVersion, wire.BaseEncoding)
		}
		if w.changed != "" || !bytes.Equal(w.out.Bytes(), plain.Bytes()) {
			r.Fail("C14", "shared-scratch", m.Command(), "while one %s was being encoded a second user of the codec encoded and decoded a pong: the first one's bytes changed under its hands (%s); payload %x, alone it encodes to %x", m.Command(), w.changed, w.out.Bytes(), plain.Bytes())
		}
	}
	r.Probe("two-codec-users")
}

// concurrentCodec (race class): what the per-peer reader and writer goroutines of the service do all the time - several
// goroutines encode and decode at once, with nothing ordering them. Whatever the (possibly hostile) frames decoded
// before did to the codec's shared state, these goroutines must not touch the same memory: the race detector
// decides (its verdict is a happens-before property, not one of physical overlap), and every round trip must
// still give back its own values.
func (s *wireSim) concurrentCodec(bsvnet wire.BitcoinNet) {
	r := s.r
	r.Probe("concurrent-codec")
	var wg sync.WaitGroup
	bad := make([]string, 4)
	for g := 0; g < 4; g++ {
		wg.Add(1)
		go func(g int) {
			defer wg.Done()
			for k := 0; k < 40; k++ {
				nonce := uint64(g)<<56 | uint64(k)<<8 | 0x5a
				var msg wire.Message = wire.NewMsgPing(nonce)
				if (g+k)%2 == 1 {
					msg = wire.NewMsgPong(nonce)
				}
				var buf bytes.Buffer
				if err := wire.WriteMessage(&buf, msg, wire.ProtocolVersion, bsvnet); err != nil {
					bad[g] = fmt.Sprintf("encode: %v", err)
					return
				}
				back, _, err := wire.ReadMessage(&buf, wire.ProtocolVersion, bsvnet)
				if err != nil {
					bad[g] = fmt.Sprintf("decode of an own frame: %v", err)
					return
				}
				var got uint64
				switch m := back.(type) {
				case *wire.MsgPing:
					got = m.Nonce
				case *wire.MsgPong:
					got = m.Nonce
				}
				if got != nonce {
					bad[g] = fmt.Sprintf("round trip of nonce %016x came back as %016x", nonce, got)
					return
				}
			}
		}(g)
	}
	wg.Wait()
	for g, b := range bad {
		if b != "" {
			r.Fail("C14", "concurrent-codec", "roundtrip", "goroutine %d of 4 encoding and decoding at once: %s", g, b)
		}
	}
}

func (s *wireSim) stream(data []byte, label string) *simStream {
	t := s.r.T
	return &simStream{data: data, policy: t.Pick([]int{20, 25, 30, 25}, label+"-chunking"), rng: NewPRNG(uint64(t.Draw(1<<30, label+"-chunk-seed"))), errAt: -1}
}

func (s *wireSim) cleanCheck(m wire.Message, frame []byte, pver uint32, bsvnet wire.BitcoinNet) {
	r := s.r
	cmd := m.Command()
	want := canonMsg(m)
	// two independent chunkings of the same bytes, followed by trailing garbage that must not be consumed
	tail := []byte{0xde, 0xad, 0xbe, 0xef}
	var first string
	for k := 0; k < 2; k++ {
		st := s.stream(append(append([]byte{}, frame...), tail...), "clean")
		res := decode(st, pver, bsvnet)
		r.Logf("clean %s pver=%d len=%d chunking=%d -> err=%v", cmd, pver, len(frame), st.policy, res.err)
		if res.hang {
			r.Fail("C14", "hang", cmd, "decoder did not return for a valid %s frame", cmd)
		}
		if res.pan != nil {
			r.Fail("C14", "panic", cmd+"@"+panicSite(res.stack), "decoder panicked on a valid %s frame: %v", cmd, res.pan)
		}
		if res.err != nil {
			r.Fail("C14", "roundtrip-error", cmd, "valid %s frame (pver %d, %d bytes, chunking %d) failed to decode: %v", cmd, pver, len(frame), st.policy, res.err)
		}
		got := canonMsg(res.msg)
		if got != want {
			r.Fail("C14", "roundtrip-differs", cmd, "decode(encode(m)) != m for %s at pver %d:\n sent %s\n got  %s", cmd, pver, truncate(want, 600), truncate(got, 600))
		}
		if res.n != len(frame) || st.pos != len(frame) {
			r.Fail("C14", "bytes-consumed", cmd, "%s frame of %d bytes: decoder reports %d, consumed %d from the stream", cmd, len(frame), res.n, st.pos)
		}
		var re bytes.Buffer
		if err := wire.WriteMessage(&re, res.msg, pver, bsvnet); err != nil || !bytes.Equal(re.Bytes(), frame) {
			r.Fail("C14", "reencode-differs", cmd, "re-encoding the decoded %s does not reproduce the bytes (err %v)", cmd, err)
		}
		if k == 0 {
			first = got
		} else if got != first {
			r.Fail("C14", "chunking-dependent", cmd, "decoding %s depends on how the stream is fragmented", cmd)
		}
		s.allocCheck(cmd, pver, res, len(frame), "valid")
	}
}

func (s *wireSim) allocCheck(cmd string, pver uint32, res decodeResult, supplied int, what string) {
	lim := ownLimit(cmd, pver, s.ebs)
	bound := 4*lim + 512*1024
	if res.alloc > bound {
		s.r.Fail("C14", "allocation", cmd+"|"+what, "decoding a %s %s frame (%d bytes supplied) allocated %d bytes; the declared payload limit for this command is %d", what, cmd, supplied, res.alloc, lim)
	}
}

func fixChecksum(frame []byte) {
	if len(frame) < 24 {
		return
	}
	p := frame[24:]
	a := sha256.Sum256(p)
	b := sha256.Sum256(a[:])
	copy(frame[20:24], b[:4])
}

func putVarInt(v uint64) []byte {
	switch {
	case v < 0xfd:
		return []byte{byte(v)}
	case v <= 0xffff:
		b := []byte{0xfd, 0, 0}
		binary.LittleEndian.PutUint16(b[1:], uint16(v))
		return b
	case v <= 0xffffffff:
		b := []byte{0xfe, 0, 0, 0, 0}
		binary.LittleEndian.PutUint32(b[1:], uint32(v))
		return b
	}
	b := []byte{0xff, 0, 0, 0, 0, 0, 0, 0, 0}
	binary.LittleEndian.PutUint64(b[1:], v)
	return b
}

// countOffset returns the offset (in the payload) of the element-count varint of list messages.
func countOffset(cmd string) int {
	switch cmd {
	case "addr", "headers", "inv", "getdata", "notfound":
		return 0
	case "getheaders", "getblocks":
		return 4
	}
	return -1
}

func (s *wireSim) faultCheck(m wire.Message, valid []byte, pver uint32, bsvnet wire.BitcoinNet) string {
	r, t := s.r, s.r.T
	cmd := m.Command()
	frame := append([]byte{}, valid...)
	mustReject := ""
	kind := []string{"truncate", "bitflip", "length-inflate", "count-inflate", "splice", "wrong-magic", "bad-checksum", "unknown-command", "oversize-length", "random-bytes", "read-error", "noncanonical-varint", "ignored-payload-command", "command-padding", "short-payload"}[t.Pick([]int{14, 14, 8, 14, 6, 6, 6, 6, 6, 8, 6, 4, 4, 8, 10}, "fault-kind")]
	if s.forceKind != "" {
		kind = s.forceKind
	}
	errAt := -1
	followUp := false // a complete frame that is refused from its header: the stream goes on behind it
	switch kind {
	case "truncate":
		frame = frame[:t.Draw(len(frame), "cut")]
		mustReject = "truncated"
	case "bitflip":
		i := t.Draw(len(frame), "flip-byte")
		frame[i] ^= 1 << uint(t.Draw(8, "flip-bit"))
		if t.Chance(1, 2, "refix-checksum") && i >= 24 {
			fixChecksum(frame)
		}
	case "length-inflate":
		l := binary.LittleEndian.Uint32(frame[16:20])
		binary.LittleEndian.PutUint32(frame[16:20], l+uint32(1+t.Draw(5000, "extra")))
		mustReject = "length beyond the bytes supplied"
	case "count-inflate":
		off := countOffset(cmd)
		if off < 0 || len(frame) < 24+off+1 {
			kind = "bad-checksum"
			frame[20] ^= 0xff
			mustReject = "bad checksum"
			break
		}
		payload := frame[24:]
		// replace the count varint by an inflated one, keep the rest, fix length and checksum
		oldLen := 1
		switch payload[off] {
		case 0xfd:
			oldLen = 3
		case 0xfe:
			oldLen = 5
		case 0xff:
			oldLen = 9
		}
		limit := map[string]uint64{"addr": 1000, "headers": 2000, "inv": 50000, "getdata": 50000, "notfound": 50000, "getheaders": 500, "getblocks": 500}[cmd]
		nv := []uint64{limit + 1, 2 * limit, 64 * limit, 1 << 62, 1<<64 - 1}[t.Draw(5, "inflated-count")]
		np := append(append(append([]byte{}, payload[:off]...), putVarInt(nv)...), payload[off+oldLen:]...)
		frame = append(append([]byte{}, frame[:24]...), np...)
		binary.LittleEndian.PutUint32(frame[16:20], uint32(len(np)))
		fixChecksum(frame)
		mustReject = "element count above the protocol limit"
	case "splice":
		other := s.genMessage(pver)
		if other != nil {
			var b bytes.Buffer
			if wire.WriteMessage(&b, other, pver, bsvnet) == nil {
				cut := t.Draw(len(frame), "splice-at")
				frame = append(frame[:cut], b.Bytes()[min(cut, b.Len()):]...)
			}
		}
	case "command-padding":
		// the command field is a name followed by zero padding; anything after the first NUL makes it another,
		// unknown, command
		nameLen := len(cmd)
		if nameLen >= 11 {
			kind = "bad-checksum"
			frame[20] ^= 0xff
			mustReject = "bad checksum"
			break
		}
		pos := 4 + nameLen + 1 + t.Draw(12-nameLen-1, "pad-pos")
		frame[pos] = byte(1 + t.Draw(255, "pad-byte"))
		mustReject = "non-zero bytes in the padding of the command field (unknown command)"
	case "short-payload":
		// a well-formed frame (length and checksum agree with what is there) whose payload ends inside a field
		if len(frame) <= 25 {
			kind = "bad-checksum"
			frame[20] ^= 0xff
			mustReject = "bad checksum"
			break
		}
		cut := 24 + t.Draw(len(frame)-24, "short-at")
		frame = frame[:cut]
		binary.LittleEndian.PutUint32(frame[16:20], uint32(cut-24))
		fixChecksum(frame)
		// (a shorter payload may still be a complete message of fewer elements: no verdict on acceptance)
	case "wrong-magic":
		binary.LittleEndian.PutUint32(frame[0:4], []uint32{uint32(wire.TestNet), uint32(wire.TestNet3), 0, 0xffffffff, uint32(wire.MainNet) ^ 1}[t.Draw(5, "magic")])
		mustReject = "wrong network magic"
		followUp = true
	case "bad-checksum":
		frame[20+t.Draw(4, "ck-byte")] ^= byte(1 + t.Draw(255, "ck-xor"))
		mustReject = "bad checksum"
	case "unknown-command":
		var c [12]byte
		copy(c[:], []string{"bogus", "VERSION", "getheader", "\xff\xfe", "headersXYZ123"}[t.Draw(5, "cmd")])
		copy(frame[4:16], c[:])
		mustReject = "unknown command"
		// the payload of a refused frame is drained in portions: lengths around the portion size and its multiples
		if t.Chance(1, 2, "unknown-cmd-filler") {
			n := []int{0, 1, 10239, 10240, 10241, 20479, 20480, 20481, 30720, 40960, 51200}[t.Draw(11, "filler-len")]
			frame = append(frame[:24:24], make([]byte, n)...)
			for i := 24; i < len(frame); i++ {
				frame[i] = byte(i * 7)
			}
			binary.LittleEndian.PutUint32(frame[16:20], uint32(n))
			fixChecksum(frame)
		}
		followUp = true
	case "oversize-length":
		overall := uint32(uint64(s.ebs/1000000) * 1024 * 1024 * 2)
		binary.LittleEndian.PutUint32(frame[16:20], []uint32{overall + 1, 0xffffffff, 0x80000000, uint32(ownLimit(cmd, pver, s.ebs)) + 1}[t.Draw(4, "oversize")])
		mustReject = "oversize length"
	case "random-bytes":
		n := t.Range(0, 200, "rand-len")
		rng := NewPRNG(uint64(t.Draw(1<<30, "rand-seed")))
		frame = make([]byte, n)
		for i := range frame {
			frame[i] = byte(rng.Next())
		}
		if n >= 4 && t.Chance(1, 2, "rand-with-magic") {
			binary.LittleEndian.PutUint32(frame[0:4], uint32(bsvnet))
		}
	case "read-error":
		errAt = t.Draw(len(frame), "err-at")
		mustReject = "stream error"
	case "noncanonical-varint":
		off := countOffset(cmd)
		if off < 0 || len(frame) < 24+off+1 || frame[24+off] >= 0xfd {
			kind = "bad-checksum"
			frame[20] ^= 0xff
			mustReject = "bad checksum"
			break
		}
		payload := frame[24:]
		v := uint64(payload[off])
		enc := [][]byte{{0xfd, byte(v), 0}, {0xfe, byte(v), 0, 0, 0}, {0xff, byte(v), 0, 0, 0, 0, 0, 0, 0}}[t.Draw(3, "nc-form")]
		np := append(append(append([]byte{}, payload[:off]...), enc...), payload[off+1:]...)
		frame = append(append([]byte{}, frame[:24]...), np...)
		binary.LittleEndian.PutUint32(frame[16:20], uint32(len(np)))
		fixChecksum(frame)
		mustReject = "non-canonical varint"
	case "ignored-payload-command":
		// protoconf / authch: payload deliberately ignored on decode; arbitrary payload must still be harmless
		var c [12]byte
		copy(c[:], []string{"protoconf", "authch"}[t.Draw(2, "ipc")])
		n := t.Range(0, 300, "ipc-len")
		rng := NewPRNG(uint64(t.Draw(1<<30, "ipc-seed")))
		p := make([]byte, n)
		for i := range p {
			p[i] = byte(rng.Next())
		}
		frame = make([]byte, 24, 24+n)
		binary.LittleEndian.PutUint32(frame[0:4], uint32(bsvnet))
		copy(frame[4:16], c[:])
		binary.LittleEndian.PutUint32(frame[16:20], uint32(n))
		frame = append(frame, p...)
		fixChecksum(frame)
		cmd = strings.TrimRight(string(c[:]), "\x00")
	}
	r.Fault(kind)
	frameLen := len(frame)
	var ping *wire.MsgPing
	if followUp {
		// the peer's next message follows on the same stream
		ping = wire.NewMsgPing(uint64(0xfeed0000) + uint64(t.Draw(1<<16, "follow-nonce")))
		var fb bytes.Buffer
		if err := wire.WriteMessage(&fb, ping, wire.ProtocolVersion, bsvnet); err != nil {
			Infra("encode ping: %v", err)
		}
		frame = append(frame, fb.Bytes()...)
	}
	st := s.stream(frame, "fault")
	st.errAt = errAt
	res := decode(st, pver, bsvnet)
	if followUp && res.err != nil && !res.hang && res.pan == nil {
		if st.pos != frameLen {
			r.Fail("C14", "refused-frame-not-consumed", fmt.Sprintf("%s|len%%10240=%d", kind, (frameLen-24)%10240), "a complete %s frame of %d payload bytes was refused (%v) with %d bytes of the stream consumed, the frame has %d: the next message starts in the wrong place", kind, frameLen-24, res.err, st.pos, frameLen)
		}
		res2 := decode(st, wire.ProtocolVersion, bsvnet)
		got, _ := res2.msg.(*wire.MsgPing)
		if res2.hang || res2.pan != nil || res2.err != nil || got == nil || got.Nonce != ping.Nonce {
			r.Fail("C14", "stream-lost-after-refused-frame", fmt.Sprintf("%s|len%%10240=%d", kind, (frameLen-24)%10240), "after a refused %s frame (%d payload bytes) the ping that follows it on the stream was not decoded: err=%v msg=%v", kind, frameLen-24, res2.err, res2.msg)
		}
		r.Probe("message-after-refused-frame")
	}
	frame = frame[:frameLen]
	r.Logf("fault %s on %s pver=%d len=%d -> err=%v msg=%v", kind, cmd, pver, len(frame), res.err, res.msg != nil)
	sig := kind + "|" + cmd
	if res.hang {
		r.Fail("C14", "hang", sig, "decoder did not return within 30 s on a %s frame (%d bytes supplied)", kind, len(frame))
	}
	if res.pan != nil {
		r.Fail("C14", "panic", sig+"@"+panicSite(res.stack), "decoder panicked on a %s %s frame: %v", kind, cmd, res.pan)
	}
	if res.err == nil && res.msg == nil {
		r.Fail("C14", "neither-error-nor-message", sig, "decoder returned neither an error nor a message")
	}
	if mustReject != "" && res.err == nil {
		r.Fail("C14", "accepted", sig, "a frame with %s was accepted as %s", mustReject, res.msg.Command())
	}
	// termination: the number of Read calls is bounded by the bytes supplied plus the declared length (the
	// decoder drains a refused payload in 10 KiB reads and keeps asking an exhausted stream; that ends, it is
	// not a hang)
	declared := 0
	if len(frame) >= 20 {
		declared = int(binary.LittleEndian.Uint32(frame[16:20]))
	}
	if res.reads > 2*len(frame)+declared/1024+64 {
		r.Fail("C14", "read-calls", sig, "%d Read calls for %d supplied bytes (declared length %d)", res.reads, len(frame), declared)
	}
	acmd := cmd
	if len(frame) >= 16 {
		acmd = strings.TrimRight(string(frame[4:16]), "\x00")
	}
	if kind == "oversize-length" || kind == "unknown-command" || kind == "wrong-magic" {
		// rejected from the header alone: nothing proportional to the declared length may be allocated
		if res.alloc > 512*1024 {
			r.Fail("C14", "allocation", sig, "a frame rejected for %s still allocated %d bytes", mustReject, res.alloc)
		}
	} else {
		s.allocCheck(acmd, pver, res, len(frame), kind)
	}
	return kind
}
