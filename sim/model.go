package verifsim

import (
	"crypto/sha256"
	"encoding/binary"
	"encoding/hex"
	"math/big"
	"sort"
)

// Executable reference model of the header store, written from the property statements and not from the
// implementation: no SQL, no incremental cleverness. Labels are recomputed from scratch after every
// accepted submission.

const (
	LLongest = "LONGEST_CHAIN"
	LStale   = "STALE"
	LOrphan  = "ORPHAN"
)

type Hash32 [32]byte

// String renders the hash the way Bitcoin prints it (byte-reversed hex).
func (h Hash32) String() string {
	var r [32]byte
	for i := 0; i < 32; i++ {
		r[i] = h[31-i]
	}
	return hex.EncodeToString(r[:])
}

func (h Hash32) IsZero() bool { return h == Hash32{} }

// RawHeader is the 80-byte header as a peer would send it.
type RawHeader struct {
	Version int32
	Prev    Hash32
	Merkle  Hash32
	Time    uint32
	Bits    uint32
	Nonce   uint32
}

// Serialize is the harness's own little-endian serialisation (not wire.WriteBlockHeader).
func (h *RawHeader) Serialize() [80]byte {
	var b [80]byte
	binary.LittleEndian.PutUint32(b[0:4], uint32(h.Version))
	copy(b[4:36], h.Prev[:])
	copy(b[36:68], h.Merkle[:])
	binary.LittleEndian.PutUint32(b[68:72], h.Time)
	binary.LittleEndian.PutUint32(b[72:76], h.Bits)
	binary.LittleEndian.PutUint32(b[76:80], h.Nonce)
	return b
}

// Hash is the double SHA-256 of the 80 bytes.
func (h *RawHeader) Hash() Hash32 {
	b := h.Serialize()
	a := sha256.Sum256(b[:])
	return sha256.Sum256(a[:])
}

// specTarget decodes compact bits per the property text: sign x mantissa x 256^(exponent-3), truncating below 3.
func specTarget(bits uint32) *big.Int {
	mant := int64(bits & 0x007fffff)
	neg := bits&0x00800000 != 0
	exp := int(bits >> 24)
	t := big.NewInt(mant)
	if exp >= 3 {
		t.Mul(t, new(big.Int).Exp(big.NewInt(256), big.NewInt(int64(exp-3)), nil))
	} else {
		t.Quo(t, new(big.Int).Exp(big.NewInt(256), big.NewInt(int64(3-exp)), nil))
	}
	if neg {
		t.Neg(t)
	}
	return t
}

// specWork is floor(2^256/(target+1)), zero for non-positive targets.
func specWork(bits uint32) *big.Int {
	t := specTarget(bits)
	if t.Sign() <= 0 {
		return big.NewInt(0)
	}
	num := new(big.Int).Exp(big.NewInt(2), big.NewInt(256), nil)
	return num.Quo(num, t.Add(t, big.NewInt(1)))
}

type MHeader struct {
	Raw     RawHeader
	Hash    Hash32
	Parent  *MHeader // nil for genesis and for headers whose parent was unknown on arrival
	Height  int32
	Work    *big.Int
	Cum     *big.Int
	Arrival int
	Label   string
}

func (m *MHeader) HashStr() string { return m.Hash.String() }

type Model struct {
	Headers   []*MHeader // arrival order, genesis first
	ByHash    map[Hash32]*MHeader
	Forbidden map[Hash32]bool
	Genesis   *MHeader
}

func NewModel(genesis RawHeader) *Model {
	g := &MHeader{Raw: genesis, Hash: genesis.Hash(), Height: 0, Work: specWork(genesis.Bits), Arrival: 0, Label: LLongest}
	g.Cum = new(big.Int).Set(g.Work)
	return &Model{Headers: []*MHeader{g}, ByHash: map[Hash32]*MHeader{g.Hash: g}, Forbidden: map[Hash32]bool{}, Genesis: g}
}

const (
	OutStored    = "stored"
	OutDuplicate = "duplicate"
	OutForbidden = "forbidden"
)

// Submit applies one submission and returns the expected answer class and (if stored) the new header.
func (m *Model) Submit(raw RawHeader) (string, *MHeader) {
	h := raw.Hash()
	if _, ok := m.ByHash[h]; ok {
		return OutDuplicate, nil
	}
	if m.Forbidden[h] {
		return OutForbidden, nil
	}
	n := &MHeader{Raw: raw, Hash: h, Work: specWork(raw.Bits), Arrival: len(m.Headers)}
	p := m.ByHash[raw.Prev]
	switch {
	case p == nil:
		n.Label, n.Height, n.Cum = LOrphan, 1, new(big.Int).Set(n.Work)
	case p.Label == LOrphan:
		n.Parent, n.Label, n.Height = p, LOrphan, p.Height+1
		n.Cum = new(big.Int).Add(p.Cum, n.Work)
	default:
		n.Parent, n.Label, n.Height = p, LStale, p.Height+1
		n.Cum = new(big.Int).Add(p.Cum, n.Work)
	}
	m.Headers = append(m.Headers, n)
	m.ByHash[h] = n
	m.relabel()
	return OutStored, n
}

// Best is the genesis-connected header with the greatest cumulative work, earliest stored among equals.
func (m *Model) Best() *MHeader {
	var best *MHeader
	for _, h := range m.Headers { // arrival order => first max wins
		if h.Label == LOrphan {
			continue
		}
		if best == nil || h.Cum.Cmp(best.Cum) > 0 {
			best = h
		}
	}
	return best
}

func (m *Model) relabel() {
	for _, h := range m.Headers {
		if h.Label != LOrphan {
			h.Label = LStale
		}
	}
	for h := m.Best(); h != nil; h = h.Parent {
		h.Label = LLongest
	}
}

// LongestChain returns genesis..tip.
func (m *Model) LongestChain() []*MHeader {
	var rev []*MHeader
	for h := m.Best(); h != nil; h = h.Parent {
		rev = append(rev, h)
	}
	for i, j := 0, len(rev)-1; i < j; i, j = i+1, j-1 {
		rev[i], rev[j] = rev[j], rev[i]
	}
	return rev
}

func (m *Model) LongestAt(height int64) *MHeader {
	lc := m.LongestChain()
	if height < 0 || height >= int64(len(lc)) {
		return nil
	}
	return lc[height]
}

// Children returns stored headers whose recorded parent link is h (arrival-time links).
func (m *Model) HasStoredChild(h *MHeader, pred func(*MHeader) bool) bool {
	for _, c := range m.Headers {
		if c.Raw.Prev == h.Hash && c != h && pred(c) {
			return true
		}
	}
	return false
}

// Tips per the statement: the longest tip plus every leaf of a stale or orphan branch.
// A leaf is a non-longest header that no stored non-longest header names as its previous block.
func (m *Model) Tips() []*MHeader {
	out := []*MHeader{m.Best()}
	for _, h := range m.Headers {
		if h.Label == LLongest {
			continue
		}
		if !m.HasStoredChild(h, func(c *MHeader) bool { return c.Label != LLongest }) {
			out = append(out, h)
		}
	}
	sort.Slice(out, func(i, j int) bool { return out[i].HashStr() < out[j].HashStr() })
	return out
}

// IsAncestor reports whether a is reachable from h by following previous-block hashes over stored headers
// (zero or more steps).
func (m *Model) IsAncestor(a, h *MHeader) bool {
	for c := h; c != nil; c = m.ByHash[c.Raw.Prev] {
		if c == a {
			return true
		}
		if c.Height == 0 {
			break
		}
	}
	return false
}

// PrevOf follows the previous-block hash among stored headers (works for orphans whose parent arrived later).
func (m *Model) PrevOf(h *MHeader) *MHeader {
	if h.Height == 0 {
		return nil
	}
	return m.ByHash[h.Raw.Prev]
}

// Locator per the statement: starts at the tip, ends at genesis, longest chain only, step 1 for the first
// entries then doubling.
func (m *Model) Locator() []*MHeader {
	lc := m.LongestChain()
	var out []*MHeader
	step := 1
	for i := len(lc) - 1; ; {
		out = append(out, lc[i])
		if i == 0 {
			break
		}
		if len(out) > 10 {
			step *= 2
		}
		i -= step
		if i < 0 {
			i = 0
		}
	}
	return out
}

// GetHeaders answers (locator, stop) per the statement; cap is the protocol's 2000.
func (m *Model) GetHeaders(locator []Hash32, stop Hash32, cap int) []*MHeader {
	lc := m.LongestChain()
	start := 0
	for _, l := range locator {
		if h := m.ByHash[l]; h != nil && h.Label == LLongest && int(h.Height) > start {
			start = int(h.Height)
		}
	}
	end := len(lc) - 1
	if !stop.IsZero() {
		if h := m.ByHash[stop]; h != nil && h.Label == LLongest {
			if int(h.Height) <= start {
				return nil
			}
			end = int(h.Height)
		}
	}
	if end-start > cap {
		end = start + cap
	}
	if end <= start {
		return nil
	}
	return lc[start+1 : end+1]
}
