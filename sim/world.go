package verifsim

import (
	"bytes"
	stdsql "database/sql"
	"fmt"
	"io"
	"os"
	"path/filepath"
	"strings"
	"sync/atomic"

	"github.com/bitcoin-sv/block-headers-service/config"
	"github.com/bitcoin-sv/block-headers-service/database"
	sqlrepository "github.com/bitcoin-sv/block-headers-service/database/repository"
	bhssql "github.com/bitcoin-sv/block-headers-service/database/sql"
	"github.com/bitcoin-sv/block-headers-service/internal/chaincfg"
	"github.com/bitcoin-sv/block-headers-service/internal/chaincfg/chainhash"
	"github.com/bitcoin-sv/block-headers-service/metrics"
	"github.com/bitcoin-sv/block-headers-service/repository"
	"github.com/bitcoin-sv/block-headers-service/service"
	"github.com/bitcoin-sv/block-headers-service/transports/http/endpoints"
	httpserver "github.com/bitcoin-sv/block-headers-service/transports/http/server"
	peerpkg "github.com/bitcoin-sv/block-headers-service/transports/p2p/peer"
	"github.com/gin-gonic/gin"
	"github.com/jmoiron/sqlx"
	"github.com/rs/zerolog"
)

// Scratch space lives on tmpfs, one directory per worker process, removed on exit.
var (
	scratchDir   string
	templateDB   string
	repoRoot     = envOr("VERIF_REPO", "/repo")
	origIgnore   []*chainhash.Hash
	origCheckpts []chaincfg.Checkpoint
	runCounter   int
)

func envOr(k, d string) string {
	if v := os.Getenv(k); v != "" {
		return v
	}
	return d
}

func worldInit() {
	base := envOr("VERIF_SCRATCH", "/dev/shm")
	scratchDir = filepath.Join(base, fmt.Sprintf("verif.%d", os.Getpid()))
	_ = os.RemoveAll(scratchDir)
	if err := os.MkdirAll(scratchDir, 0o755); err != nil {
		panic(err)
	}
	_ = os.Setenv("TMPDIR", scratchDir)
	origIgnore = chaincfg.MainNetParams.HeadersToIgnore
	origCheckpts = chaincfg.MainNetParams.Checkpoints
	nop := zerolog.Nop()
	config.Checkpoints = config.ActiveNetParams.Checkpoints
	config.TimeSource = config.NewMedianTime(&nop)
	// migrated, genesis-only template produced by the real database.Init from the working tree
	templateDB = filepath.Join(scratchDir, "template.db")
	cfg := baseConfig(templateDB)
	db, err := database.Init(cfg, &nop)
	if err != nil {
		panic(fmt.Sprintf("template database.Init: %v", err))
	}
	_ = db.Close()
}

func worldCleanup() {
	if scratchDir != "" {
		_ = os.RemoveAll(scratchDir)
	}
}

func baseConfig(dbPath string) *config.AppConfig {
	cfg := config.GetDefaultAppConfig()
	cfg.Db.Engine = config.DBSQLite
	cfg.Db.SchemaPath = filepath.Join(repoRoot, "database/migrations")
	cfg.Db.SQLite.FilePath = dbPath
	cfg.Db.PreparedDb = false
	cfg.HTTP.UseAuth = false
	cfg.Logging.Level = "disabled"
	return cfg
}

// panicSniffer is the writer behind the service logger: it counts gin.Recovery reports so that a handler
// panic is observable although the middleware turns it into a 500.
type panicSniffer struct {
	panics atomic.Int64
	last   atomic.Value
}

func (p *panicSniffer) Write(b []byte) (int, error) {
	if bytes.Contains(b, []byte("panic recovered")) {
		p.panics.Add(1)
		p.last.Store(string(b))
	}
	return len(b), nil
}

// World is one simulated deployment: a SQLite file plus the current process generation built on it
// exactly as cmd/main.go builds it (database.Init -> sql.NewHeadersDb -> repositories -> services -> gin).
type World struct {
	R            *Run
	Dir          string
	DBPath       string
	Cfg          *config.AppConfig
	DB           *sqlx.DB
	viaSimDriver bool // opened through the wrapper SQL driver (layer 2)
	Repo         *repository.Repositories
	Svc          *service.Services
	Gin          *gin.Engine
	Sniffer      *panicSniffer
	Log          zerolog.Logger
	ro           *stdsql.DB
	WrapRepo     func(*repository.Repositories) // optional decorator installation (fault injection, yields)
	// AfterNewServices runs between service.NewServices and route registration (replace a service's collaborator).
	AfterNewServices func(w *World)
	// AfterServices lets an engine add notification channels etc. after every (re)start.
	AfterServices func(w *World)
	Generation    int
	// Peers is the peer map shared by service.NewServices (network service) and the P2P server, as in cmd/main.go.
	Peers map[*peerpkg.Peer]*peerpkg.SyncState
}

// NewWorld creates the scratch database of a run from the template. It does not open it.
func NewWorld(r *Run) *World {
	w := NewWorldKeepIgnore(r)
	chaincfg.MainNetParams.HeadersToIgnore = nil
	return w
}

// NewWorldKeepIgnore is NewWorld without resetting the forbidden-hash list (second world of the same run).
func NewWorldKeepIgnore(r *Run) *World {
	runCounter++
	dir := filepath.Join(scratchDir, fmt.Sprintf("run%d", runCounter))
	_ = os.RemoveAll(dir)
	if err := os.MkdirAll(dir, 0o755); err != nil {
		Infra("mkdir: %v", err)
	}
	w := &World{R: r, Dir: dir, DBPath: filepath.Join(dir, "bhs.db")}
	copyFile(templateDB, w.DBPath)
	w.Cfg = baseConfig(w.DBPath)
	w.Sniffer = &panicSniffer{}
	w.Log = zerolog.New(w.Sniffer).Level(zerolog.ErrorLevel)
	if p := os.Getenv("VERIF_SVC_LOG"); p != "" { // debugging aid: full service log of the run into a file
		if f, err := os.OpenFile(p, os.O_CREATE|os.O_WRONLY|os.O_APPEND, 0o644); err == nil {
			w.Log = zerolog.New(zerolog.MultiLevelWriter(w.Sniffer, f)).Level(zerolog.DebugLevel)
		}
	}
	return w
}

func copyFile(src, dst string) {
	in, err := os.Open(src)
	if err != nil {
		Infra("copy: %v", err)
	}
	defer in.Close()
	out, err := os.Create(dst)
	if err != nil {
		Infra("copy: %v", err)
	}
	if _, err := io.Copy(out, in); err != nil {
		Infra("copy: %v", err)
	}
	_ = out.Close()
}

// Open starts a process generation on the database file (the real database.Init, as production does).
func (w *World) Open() {
	db, err := database.Init(w.Cfg, &w.Log)
	if err != nil {
		Infra("database.Init: %v", err)
	}
	w.OpenWith(db)
}

// OpenSim starts a process generation whose handle goes through the wrapper SQL driver (layer 2): the real
// database.Init runs first on the file (migrations, genesis), then the same file is opened with sqlite3-sim.
func (w *World) OpenSim() {
	db, err := database.Init(w.Cfg, &w.Log)
	if err != nil {
		Infra("database.Init: %v", err)
	}
	_ = db.Close()
	w.viaSimDriver = true
	w.OpenWith(openSim(w.DBPath))
}

// OpenWith builds the services on an already opened handle.
func (w *World) OpenWith(db *sqlx.DB) {
	w.DB = db
	w.Generation++
	store := bhssql.NewHeadersDb(db, &w.Log)
	w.Repo = &repository.Repositories{
		Headers:  sqlrepository.NewHeadersRepository(store),
		Tokens:   sqlrepository.NewTokensRepository(store),
		Webhooks: sqlrepository.NewWebhooksRepository(store),
	}
	if w.WrapRepo != nil {
		w.WrapRepo(w.Repo)
	}
	w.Svc = service.NewServices(service.Dept{
		Repositories: w.Repo,
		Peers:        w.Peers,
		AdminToken:   w.Cfg.HTTP.AuthToken,
		Logger:       &w.Log,
		Config:       w.Cfg,
	})
	if w.AfterNewServices != nil {
		w.AfterNewServices(w)
	}
	srv := httpserver.NewHTTPServer(w.Cfg.HTTP, &w.Log)
	if w.Cfg.Metrics.Enabled {
		// as cmd/main.go: metrics are switched on once per process and registered before the routes
		if _, on := metrics.Get(); !on {
			metrics.EnableMetrics()
		}
		srv.ApplyConfiguration(metrics.Register)
	}
	srv.ApplyConfiguration(endpoints.SetupRoutes(w.Svc, w.Cfg.HTTP))
	srv.ApplyConfiguration(func(e *gin.Engine) { w.Gin = e })
	if w.AfterServices != nil {
		w.AfterServices(w)
	}
}

// Close drops the process generation (all in-memory objects) and closes the handle.
func (w *World) Close() {
	simKillAll()
	if w.DB != nil {
		_ = w.DB.Close()
		w.DB = nil
	}
	w.Svc, w.Repo, w.Gin = nil, nil, nil
}

func (w *World) Restart() {
	w.Close()
	if w.viaSimDriver {
		w.OpenSim() // the new generation sits on the wrapper driver as well
		return
	}
	w.Open()
}

// WithWriteInFlight runs body while another connection of the service's own pool has a write transaction open on the
// given table (a no-op update of every row: it takes the write lock and changes nothing; rolled back afterwards) -
// the state every reader meets while the sync engine is in the middle of storing a batch. Only for read-only bodies:
// a second writer would wait for the first one in real time.
func (w *World) WithWriteInFlight(table, col string, body func()) {
	tx, err := w.DB.Beginx()
	if err != nil {
		Infra("in-flight write: begin: %v", err)
	}
	defer func() { _ = tx.Rollback() }()
	if _, err := tx.Exec("UPDATE " + table + " SET " + col + " = " + col); err != nil {
		Infra("in-flight write: %v", err)
	}
	w.R.Fault("reads-during-open-write-transaction")
	body()
}

// Destroy removes the scratch files of the run.
func (w *World) Destroy() {
	w.Close()
	if w.ro != nil {
		_ = w.ro.Close()
		w.ro = nil
	}
	_ = os.RemoveAll(w.Dir)
}

// Row is one row of the headers table as read by the harness's own handle.
type Row struct {
	Hash, Prev, Merkle, State, Chainwork, Cumulated, Timestamp string
	Height, Version                                            int64
	Nonce, Bits                                                int64
}

func (w *World) roHandle() *stdsql.DB {
	if w.ro == nil {
		db, err := stdsql.Open("sqlite3", "file:"+w.DBPath+"?mode=ro&_busy_timeout=2000")
		if err != nil {
			Infra("ro open: %v", err)
		}
		db.SetMaxOpenConns(1)
		w.ro = db
	}
	return w.ro
}

// Snapshot reads the whole headers table through the harness's own read-only handle.
func (w *World) Snapshot() map[string]Row {
	rows, err := w.roHandle().Query(`SELECT hash, height, version, merkleroot, nonce, CAST(bits AS INTEGER), header_state, chainwork, previous_block, CAST(timestamp AS TEXT), cumulated_work FROM headers`)
	if err != nil {
		Infra("snapshot: %v", err)
	}
	defer rows.Close()
	out := map[string]Row{}
	for rows.Next() {
		var r Row
		var ts stdsql.NullString
		if err := rows.Scan(&r.Hash, &r.Height, &r.Version, &r.Merkle, &r.Nonce, &r.Bits, &r.State, &r.Chainwork, &r.Prev, &ts, &r.Cumulated); err != nil {
			Infra("snapshot scan: %v", err)
		}
		r.Timestamp = ts.String
		if _, dup := out[r.Hash]; dup {
			Infra("snapshot: duplicate primary key %s", r.Hash)
		}
		out[r.Hash] = r
	}
	if err := rows.Err(); err != nil {
		Infra("snapshot rows: %v", err)
	}
	return out
}

// TableDigest returns a digest of a whole table (tokens, webhooks, headers) for "nothing changed" monitors.
func (w *World) TableDigest(table string) string {
	rows, err := w.roHandle().Query("SELECT * FROM " + table + " ORDER BY 1")
	if err != nil {
		Infra("digest %s: %v", table, err)
	}
	defer rows.Close()
	cols, _ := rows.Columns()
	var lines []string
	for rows.Next() {
		vals := make([]any, len(cols))
		ptrs := make([]any, len(cols))
		for i := range vals {
			ptrs[i] = &vals[i]
		}
		if err := rows.Scan(ptrs...); err != nil {
			Infra("digest scan: %v", err)
		}
		var sb strings.Builder
		for _, v := range vals {
			switch x := v.(type) {
			case []byte:
				sb.WriteString(string(x))
			default:
				sb.WriteString(fmt.Sprint(x))
			}
			sb.WriteByte('|')
		}
		lines = append(lines, sb.String())
	}
	return digestLines(lines)
}
