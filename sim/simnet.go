package verifsim

import (
	"errors"
	"io"
	"net"
	"os"
	"sync"
	"time"
)

// In-memory network: simConn is one end of a reliable byte stream (TCP semantics: no loss, duplication or
// reordering within a connection). It blocks on sync.Cond, which is durably blocking inside a synctest bubble
// (net.Pipe is not usable: its zero-length writes rendezvous). Delivery can be put under scheduler control:
// with Gate set, written bytes stay in the "wire" queue until the scheduler moves them to the reader.

type simAddr struct{ s string }

func (a simAddr) Network() string { return "tcp" }
func (a simAddr) String() string  { return a.s }

type simHalf struct {
	mu       sync.Mutex
	cond     *sync.Cond
	buf      []byte // readable bytes
	wire     []byte // written, not yet delivered (only with gating)
	closed   bool   // writer closed: EOF after buf is drained
	rclosed  bool   // reader closed
	reset    bool   // connection reset: reads fail at once
	gated    bool
	rdl      time.Time
	rtimer   *time.Timer
	written  int
	wblocked bool  // writes of this end block until released (a peer that does not read: full send buffer)
	stops    []int // offsets into wire that one Deliver call does not cross (message boundaries marked by the writer)
}

func newHalf() *simHalf {
	h := &simHalf{}
	h.cond = sync.NewCond(&h.mu)
	return h
}

type simConn struct {
	rd, wr        *simHalf
	local, remote net.Addr
	onWrite       func() // scheduler notification (called without locks held)
	closeOnce     sync.Once
}

// simPipe returns the two ends of a connection: a (address la, peer ra) and b.
func simPipe(la, ra net.Addr) (*simConn, *simConn) {
	ab, ba := newHalf(), newHalf()
	a := &simConn{rd: ba, wr: ab, local: la, remote: ra}
	b := &simConn{rd: ab, wr: ba, local: ra, remote: la}
	return a, b
}

func (c *simConn) Read(p []byte) (int, error) {
	h := c.rd
	h.mu.Lock()
	defer h.mu.Unlock()
	for {
		if h.reset {
			return 0, errors.New("simnet: connection reset by peer")
		}
		if h.rclosed {
			return 0, net.ErrClosed
		}
		if len(h.buf) > 0 {
			n := copy(p, h.buf)
			h.buf = h.buf[n:]
			return n, nil
		}
		if h.closed {
			return 0, io.EOF
		}
		if !h.rdl.IsZero() && !time.Now().Before(h.rdl) {
			return 0, os.ErrDeadlineExceeded
		}
		h.cond.Wait()
	}
}

func (c *simConn) Write(p []byte) (int, error) {
	h := c.wr
	h.mu.Lock()
	for h.wblocked && !(h.closed || h.reset || h.rclosed) {
		h.cond.Wait() // the peer's receive window is closed: the writer waits (durably, for the simulator)
	}
	if h.closed || h.reset || h.rclosed {
		h.mu.Unlock()
		return 0, errors.New("simnet: write on closed connection")
	}
	if h.gated {
		h.wire = append(h.wire, p...)
	} else {
		h.buf = append(h.buf, p...)
	}
	h.written += len(p)
	h.cond.Broadcast()
	h.mu.Unlock()
	if c.onWrite != nil {
		c.onWrite()
	}
	return len(p), nil
}

func (c *simConn) Close() error {
	c.closeOnce.Do(func() {
		c.wr.mu.Lock()
		c.wr.closed = true
		c.wr.cond.Broadcast()
		c.wr.mu.Unlock()
		c.rd.mu.Lock()
		c.rd.rclosed = true
		if c.rd.rtimer != nil {
			c.rd.rtimer.Stop()
		}
		c.rd.cond.Broadcast()
		c.rd.mu.Unlock()
	})
	return nil
}

// Reset makes both directions fail immediately (RST).
func (c *simConn) Reset() {
	for _, h := range []*simHalf{c.rd, c.wr} {
		h.mu.Lock()
		h.reset = true
		h.cond.Broadcast()
		h.mu.Unlock()
	}
}

// IsClosedByPeer reports whether the other end closed its write side (or the connection).
func (c *simConn) PeerClosed() bool {
	c.rd.mu.Lock()
	defer c.rd.mu.Unlock()
	return c.rd.closed || c.rd.reset
}

// Pending returns the number of undelivered (gated) bytes written by this end.
func (c *simConn) PendingOut() int {
	c.wr.mu.Lock()
	defer c.wr.mu.Unlock()
	return len(c.wr.wire)
}

// BlockWrites makes every Write of this end wait (true) or lets them through again (false).
func (c *simConn) BlockWrites(b bool) {
	c.wr.mu.Lock()
	c.wr.wblocked = b
	c.wr.cond.Broadcast()
	c.wr.mu.Unlock()
}

// Written is the number of bytes this end has written so far (delivered or not).
func (c *simConn) Written() int {
	c.wr.mu.Lock()
	defer c.wr.mu.Unlock()
	return c.wr.written
}

// Deliver moves up to n gated bytes written by this end to the peer's read buffer (n<=0: all).
func (c *simConn) Deliver(n int) int {
	h := c.wr
	h.mu.Lock()
	defer h.mu.Unlock()
	if n <= 0 || n > len(h.wire) {
		n = len(h.wire)
	}
	if len(h.stops) > 0 && n > h.stops[0] {
		n = h.stops[0]
	}
	h.buf = append(h.buf, h.wire[:n]...)
	h.wire = h.wire[n:]
	var rest []int
	for _, st := range h.stops {
		if st-n > 0 {
			rest = append(rest, st-n)
		}
	}
	h.stops = rest
	h.cond.Broadcast()
	return n
}

// DeliverThrough hands over everything that is pending, across boundaries (several messages in one segment).
func (c *simConn) DeliverThrough() int {
	c.wr.mu.Lock()
	c.wr.stops = nil
	c.wr.mu.Unlock()
	return c.Deliver(0)
}

// MarkStop makes the current end of the undelivered bytes a boundary: one Deliver call hands over bytes up to the
// first boundary only (what follows waits for the next call).
func (c *simConn) MarkStop() {
	h := c.wr
	h.mu.Lock()
	defer h.mu.Unlock()
	if len(h.wire) > 0 && (len(h.stops) == 0 || h.stops[len(h.stops)-1] != len(h.wire)) {
		h.stops = append(h.stops, len(h.wire))
	}
}

// SetGated puts the bytes this end writes under scheduler control.
func (c *simConn) SetGated(g bool) {
	c.wr.mu.Lock()
	c.wr.gated = g
	c.wr.mu.Unlock()
}

// TakeAll removes and returns everything readable at this end without blocking.
func (c *simConn) TakeAll() []byte {
	h := c.rd
	h.mu.Lock()
	defer h.mu.Unlock()
	b := h.buf
	h.buf = nil
	return b
}

func (c *simConn) LocalAddr() net.Addr  { return c.local }
func (c *simConn) RemoteAddr() net.Addr { return c.remote }

func (c *simConn) SetDeadline(t time.Time) error { return c.SetReadDeadline(t) }

func (c *simConn) SetReadDeadline(t time.Time) error {
	h := c.rd
	h.mu.Lock()
	defer h.mu.Unlock()
	h.rdl = t
	if h.rtimer != nil {
		h.rtimer.Stop()
		h.rtimer = nil
	}
	if !t.IsZero() {
		d := time.Until(t)
		if d < 0 {
			d = 0
		}
		h.rtimer = time.AfterFunc(d, func() {
			h.mu.Lock()
			h.cond.Broadcast()
			h.mu.Unlock()
		})
	}
	h.cond.Broadcast()
	return nil
}

func (c *simConn) SetWriteDeadline(time.Time) error { return nil }

// simListener hands scheduler-made connections to the service.
type simListener struct {
	mu     sync.Mutex
	cond   *sync.Cond
	q      []net.Conn
	closed bool
	addr   net.Addr
}

func newSimListener(addr string) *simListener {
	l := &simListener{addr: simAddr{addr}}
	l.cond = sync.NewCond(&l.mu)
	return l
}

func (l *simListener) Accept() (net.Conn, error) {
	l.mu.Lock()
	defer l.mu.Unlock()
	for {
		if l.closed {
			return nil, net.ErrClosed
		}
		if len(l.q) > 0 {
			c := l.q[0]
			l.q = l.q[1:]
			return c, nil
		}
		l.cond.Wait()
	}
}

func (l *simListener) Offer(c net.Conn) {
	l.mu.Lock()
	l.q = append(l.q, c)
	l.cond.Broadcast()
	l.mu.Unlock()
}

func (l *simListener) Close() error {
	l.mu.Lock()
	l.closed = true
	l.cond.Broadcast()
	l.mu.Unlock()
	return nil
}

func (l *simListener) Addr() net.Addr { return l.addr }
