package verifsim

import (
	"context"
	crand "crypto/rand"
	"crypto/sha256"
	"encoding/binary"
	"encoding/json"
	"errors"
	"fmt"
	"io"
	"net"
	"net/http"
	"sort"
	"strings"
	"sync"
	"time"

	"github.com/bitcoin-sv/block-headers-service/domains"
	"github.com/bitcoin-sv/block-headers-service/repository"
	"github.com/bitcoin-sv/block-headers-service/transports/websocket"
	"github.com/centrifugal/centrifuge-go"
)

// authsim: create / revoke / authenticate / restart histories against a set model (C10) with full
// route-table sweeps per credential class inside those histories (C09).

func init() {
	register(&Engine{Name: "authsim", Props: []string{"C09", "C10"}, Exec: authsimExec})
}

// seededReader replaces crypto/rand.Reader so that issued tokens are a function of the seed.
type seededReader struct{ p *PRNG }

func (s *seededReader) Read(b []byte) (int, error) {
	for i := range b {
		b[i] = byte(s.p.Next())
	}
	return len(b), nil
}

// instantReader is the crypto/rand replacement of the whole-stack engines: the bytes are a function of (seed,
// simulated instant, request length, n-th request of that length at that instant). Readers of different lengths
// (1 byte: choice of the sync peer; 8 bytes: ping and version nonces) therefore do not perturb each other when
// their goroutines run at the same simulated instant.
type instantReader struct {
	mu    sync.Mutex
	seed  uint64
	at    int64
	cnt   map[int]uint32
	short map[int]uint32
}

func (s *instantReader) Read(b []byte) (int, error) {
	s.mu.Lock()
	now := time.Now().UnixNano()
	if now != s.at || s.cnt == nil {
		s.at, s.cnt = now, map[int]uint32{}
	}
	s.cnt[len(b)]++
	k := s.cnt[len(b)]
	if len(b) <= 2 {
		// short reads are choices among a handful of candidates (the sync peer): their sequence is what matters,
		// not the instant at which a timer happens to trigger them
		if s.short == nil {
			s.short = map[int]uint32{}
		}
		s.short[len(b)]++
		k, now = s.short[len(b)], 0
	}
	s.mu.Unlock()
	var in [28]byte
	binary.LittleEndian.PutUint64(in[0:], s.seed)
	binary.LittleEndian.PutUint64(in[8:], uint64(now))
	binary.LittleEndian.PutUint32(in[16:], uint32(len(b)))
	binary.LittleEndian.PutUint32(in[20:], k)
	for off, blk := 0, uint32(0); off < len(b); blk++ {
		binary.LittleEndian.PutUint32(in[24:], blk)
		h := sha256.Sum256(in[:])
		off += copy(b[off:], h[:])
	}
	return len(b), nil
}

func withInstantRand(seed uint64, f func()) {
	old := crand.Reader
	crand.Reader = &instantReader{seed: seed}
	defer func() { crand.Reader = old }()
	f()
}

func withSeededRand(seed uint64, f func()) {
	old := crand.Reader
	crand.Reader = &seededReader{NewPRNG(seed ^ 0xa5a5a5a5)}
	defer func() { crand.Reader = old }()
	f()
}

// failingTokens makes the token store fail on lookup (fail-closed check of C09).
type failingTokens struct {
	in   repository.Tokens
	fail *bool
}

func (f *failingTokens) AddTokenToDatabase(t *domains.Token) error { return f.in.AddTokenToDatabase(t) }
func (f *failingTokens) DeleteToken(t string) error                { return f.in.DeleteToken(t) }
func (f *failingTokens) GetTokenByValue(t string) (*domains.Token, error) {
	if *f.fail {
		return nil, errInjected
	}
	return f.in.GetTokenByValue(t)
}

type authSim struct {
	r                             *Run
	w                             *World
	admin                         string
	live                          []string
	revoked                       []string
	ws                            websocket.Server
	srv                           *http.Server
	lis                           *simListener
	failTok                       bool
	sqlFaults, failNextCommit     bool
	sqlLookupFaults, failTokQuery bool
	useAuth                       bool
	wsChecks                      int
}

func authsimExec(r *Run) {
	withSeededRand(r.Seed, func() { authsimRun(r) })
}

func authsimRun(r *Run) {
	t := r.T
	w := NewWorld(r)
	defer w.Destroy()
	a := &authSim{r: r, w: w}
	a.admin = fmt.Sprintf("admin-%x", r.Seed&0xffffff)
	a.useAuth = true
	if r.Prop == "C09" && t.Chance(1, 4, "auth-off") {
		a.useAuth = false
	}
	w.Cfg.HTTP.UseAuth = a.useAuth
	w.Cfg.HTTP.AuthToken = a.admin
	w.Cfg.HTTP.ProfilingEndpointsEnabled = t.Chance(1, 2, "profiling")
	// metrics can only be switched on once per process (package-level registry): the runner gives every other
	// worker process of the C09 check the option metrics=1
	w.Cfg.Metrics.Enabled = r.Opt["metrics"] == "1"
	r.Cfg["metrics"] = w.Cfg.Metrics.Enabled
	r.Cfg["use_auth"] = a.useAuth
	r.Cfg["profiling"] = w.Cfg.HTTP.ProfilingEndpointsEnabled
	w.WrapRepo = func(repo *repository.Repositories) {
		repo.Tokens = &failingTokens{in: repo.Tokens, fail: &a.failTok}
	}
	w.AfterServices = func(w *World) { a.startWS() }
	defer a.stopWS()
	// a third of the C10 runs go through the wrapper SQL driver, which can make the COMMIT of a create / revoke fail
	a.sqlFaults = r.Prop == "C10" && t.Chance(1, 3, "sql-faults")
	r.Cfg["sql_faults"] = a.sqlFaults
	// half of the C09 runs go through the wrapper driver as well: there the token LOOKUP can fail below the repository
	// (SQLITE_BUSY while another connection holds the write lock), not only the repository call as a whole
	a.sqlLookupFaults = r.Prop == "C09" && t.Chance(1, 2, "sql-lookup-faults")
	r.Cfg["sql_lookup_faults"] = a.sqlLookupFaults
	defer func() { sqlFail = nil }()
	if a.sqlFaults || a.sqlLookupFaults {
		sqlFail = func(op, q string) error {
			if op == "commit" && a.failNextCommit {
				a.failNextCommit = false
				r.Fault("commit-error")
				return errors.New("simnet: database is locked (SQLITE_BUSY) at COMMIT")
			}
			if op == "query" && a.failTokQuery && strings.Contains(strings.ToLower(q), "tokens") {
				r.Fault("token-query-error")
				return errors.New("simnet: database is locked (SQLITE_BUSY)")
			}
			return nil
		}
		w.OpenSim()
	} else {
		w.Open()
	}
	// a few headers so that data routes have something to serve
	h := NewHist(r, w)
	h.SkipChecks = true
	h.cfg.MaxOps = 3
	h.palette = bitsNormal[:1]
	h.ExtendBest(t.Range(1, 3, "headers"))

	nops := t.Range(3, 14, "auth-ops")
	sweeps, restarts := 0, 0
	for i := 0; i < nops; i++ {
		if !t.Chance(19, 20, "more") && i >= 2 {
			break
		}
		r.Step++
		switch t.Pick([]int{30, 25, 30, 8, 7 * boolInt(r.Prop == "C09"), 8 * boolInt(a.sqlFaults && len(a.live) > 0)}, "auth-op") {
		case 0:
			a.create()
		case 1:
			a.revoke()
		case 2:
			a.authenticate()
		case 3:
			a.stopWS()
			w.Close()
			if a.sqlFaults || a.sqlLookupFaults {
				w.OpenSim()
			} else {
				w.Open()
			}
			restarts++
			r.Logf("restart")
			a.checkAll("after-restart")
		case 4:
			a.sweep()
			sweeps++
		case 5:
			a.revokeDuringLookup()
		}
	}
	a.checkAll("final")
	if r.Prop == "C09" {
		a.sweep()
		sweeps++
		a.failClosed()
	}
	r.Shape = []string{fmt.Sprintf("live=%d revoked=%d restarts=%d sweeps=%d auth=%v prof=%v ws=%d", len(a.live), len(a.revoked), restarts, sweeps, a.useAuth, w.Cfg.HTTP.ProfilingEndpointsEnabled, a.wsChecks)}
	r.Shape = append(r.Shape, r.Trace...)
	if r.Prop == "C09" {
		r.Nontrivial = len(a.revoked) > 0 && len(a.live) > 0 && restarts > 0 && sweeps > 0
	} else {
		r.Nontrivial = len(a.revoked) > 0 && len(a.live) > 0 && (restarts > 0 || a.wsChecks > 0)
	}
}

func (a *authSim) startWS() {
	ws, err := websocket.NewServer(&a.w.Log, a.w.Svc, a.w.Cfg.HTTP.UseAuth)
	if err != nil {
		Infra("websocket.NewServer: %v", err)
	}
	ws.SetupEntrypoint(a.w.Gin)
	if err := ws.Start(); err != nil {
		Infra("websocket start: %v", err)
	}
	a.ws = ws
	a.lis = newSimListener("sim:80")
	a.srv = &http.Server{Handler: a.w.Gin}
	go func(s *http.Server, l net.Listener) { _ = s.Serve(l) }(a.srv, a.lis)
}

func (a *authSim) stopWS() {
	if a.srv != nil {
		_ = a.srv.Close()
		a.srv = nil
	}
	if a.ws != nil {
		_ = a.ws.Shutdown()
		a.ws = nil
	}
}

func bearer(tok string) map[string]string { return map[string]string{"Authorization": "Bearer " + tok} }

func (a *authSim) create() {
	r := a.r
	faulty := a.sqlFaults && r.T.Chance(1, 4, "fail-create-commit")
	a.failNextCommit = faulty
	code, body := a.w.HTTP("POST", "/api/v1/access", nil, bearer(a.admin))
	a.failNextCommit = false
	if faulty && code != 200 {
		// the store refused; the API said so; nothing may have changed
		r.Logf("create with failing COMMIT -> %d", code)
		if code >= 500 {
			r.Fail("C10", "create", "commit-error-5xx", "POST /access with a failing COMMIT -> %d %s", code, string(body))
		}
		a.checkAll("after-failed-create")
		return
	}
	var tk struct {
		Token   string `json:"token"`
		IsAdmin bool   `json:"isAdmin"`
	}
	if code != 200 || json.Unmarshal(body, &tk) != nil || tk.Token == "" {
		r.Fail("C10", "create", "status", "POST /access with the admin token -> %d %s", code, string(body))
	}
	r.Logf("create -> %s", tk.Token)
	for _, x := range append(append([]string{a.admin}, a.live...), a.revoked...) {
		if x == tk.Token {
			r.Fail("C10", "distinct", "issued-twice", "token %s was issued twice", tk.Token)
		}
	}
	if tk.IsAdmin {
		r.Fail("C10", "create", "issued-admin", "issued token claims to be admin")
	}
	a.live = append(a.live, tk.Token)
	a.checkAll("after-create")
}

func (a *authSim) revoke() {
	r, t := a.r, a.r.T
	kind := t.Pick([]int{50 * boolInt(len(a.live) > 0), 15, 15, 20 * boolInt(len(a.revoked) > 0), 15 * boolInt(len(a.live) > 0)}, "revoke-kind")
	var tok, what string
	faulty := false
	liveIdx := -1
	switch kind {
	case 0:
		k := t.Draw(len(a.live), "revoke-idx")
		tok, what = a.live[k], "existing"
		liveIdx = k
		faulty = a.sqlFaults && t.Chance(1, 4, "fail-revoke-commit")
	case 1:
		tok, what = fmt.Sprintf("unknown%d", a.r.Step), "unknown"
	case 2:
		tok, what = a.admin, "admin"
	case 3:
		tok, what = a.revoked[t.Draw(len(a.revoked), "revoked-idx")], "already-revoked"
	case 4:
		// a value that was never issued but is "equal" to a live token under a looser comparison (letter case, SQL
		// pattern): the live token must go on authenticating (wave 10: DELETE ... COLLATE NOCASE)
		u := a.live[t.Draw(len(a.live), "near-miss-idx")]
		tok, what = []string{swapCase(u), strings.ToLower(u), "_" + u[1:], u[:len(u)/2] + "%25"}[t.Draw(4, "near-miss-kind")], "near-miss-of-live"
		if tok == u {
			tok = u + "x"
		}
	}
	a.failNextCommit = faulty
	code, body := a.w.HTTP("DELETE", "/api/v1/access/"+tok, nil, bearer(a.admin))
	a.failNextCommit = false
	r.Logf("revoke %s (%s, failing COMMIT: %v) -> %d", tok, what, faulty, code)
	// the model follows the ANSWER: a revocation that was acknowledged must hold, one that was refused must not
	if liveIdx >= 0 && code == 200 {
		a.live = append(a.live[:liveIdx], a.live[liveIdx+1:]...)
		a.revoked = append(a.revoked, tok)
	}
	if code >= 500 || (what == "existing" && code != 200 && !faulty) {
		r.Fail("C10", "revoke", what+fmt.Sprintf("|%d", code), "DELETE /access/%s (%s) -> %d %s", tok, what, code, string(body))
	}
	a.checkAll("after-revoke-" + what)
}

// revokeDuringLookup: request A presents a live token and has READ its row when the token is revoked (A is slow to act
// on what it read); the revocation is acknowledged; request B presents the same token after that. A overlaps the
// revocation and may go either way; B started after the acknowledgement and must be refused - whatever A is still doing.
func (a *authSim) revokeDuringLookup() {
	r, t := a.r, a.r.T
	k := t.Draw(len(a.live), "overlap-revoke-idx")
	tok := a.live[k]
	viaData := t.Chance(1, 2, "overlap-via-data-route")
	path := "/api/v1/access"
	if viaData {
		path = "/api/v1/chain/tip/longest"
	}
	parked, release := make(chan struct{}), make(chan struct{})
	var once sync.Once
	sqlRowsClosedHook = func(q string) {
		if strings.Contains(strings.ToLower(q), "tokens") {
			hit := false
			once.Do(func() { hit = true })
			if hit {
				close(parked)
				<-release
			}
		}
	}
	defer func() { sqlRowsClosedHook = nil }()
	resA, resB := make(chan int, 1), make(chan int, 1)
	go func() { c, _ := a.w.HTTP("GET", path, nil, bearer(tok)); resA <- c }()
	select {
	case <-parked:
	case cA := <-resA:
		Infra("revokeDuringLookup: the request with a live token was answered (%d) without reading the tokens table", cA)
	case <-time.After(30 * time.Second):
		Infra("revokeDuringLookup: the first request neither read the tokens table nor returned within 30 s of real time")
	}
	code, body := a.w.HTTP("DELETE", "/api/v1/access/"+tok, nil, bearer(a.admin))
	if code != 200 {
		close(release)
		<-resA
		r.Fail("C10", "revoke", fmt.Sprintf("existing|%d|during-a-lookup", code), "DELETE /access/%s while another request had just looked the token up -> %d %s", tok, code, string(body))
	}
	a.live = append(a.live[:k], a.live[k+1:]...)
	a.revoked = append(a.revoked, tok)
	go func() { c, _ := a.w.HTTP("GET", path, nil, bearer(tok)); resB <- c }()
	var cB int
	waited := false
	select {
	case cB = <-resB:
	case <-time.After(300 * time.Millisecond): // B waits for A (it may): let A go on
		waited = true
	}
	close(release)
	cA := <-resA
	if waited {
		cB = <-resB
	}
	r.Fault("revocation-between-a-lookup-and-its-use")
	r.Logf("revoke %s after request A (%s) had read its row -> 200; A -> %d; request B after the revocation -> %d", tok, path, cA, cB)
	if cB == 200 {
		r.Fail("C10", "http-auth", "revoked|after-revoke-overlapping-an-older-lookup", "token %s: a request that started after DELETE /access/%s had been answered with 200 was authenticated (GET %s -> 200) while an older request with the same token, which had read the token's row before the revocation, was still in progress (it got %d)", tok, tok, path, cA)
	}
	if cB != 401 {
		r.Fail("C10", "http-auth", fmt.Sprintf("revoked|after-revoke-overlapping-an-older-lookup|%d", cB), "token %s: request after the acknowledged revocation -> %d, expected 401", tok, cB)
	}
	a.checkAll("after-revoke-overlapping-lookup")
}

// authHTTP reports (authenticated?, isAdmin) for a token on GET /api/v1/access.
func (a *authSim) authHTTP(tok string) (bool, bool, int) {
	code, body := a.w.HTTP("GET", "/api/v1/access", nil, bearer(tok))
	if code == 200 {
		var tk struct {
			Token   string `json:"token"`
			IsAdmin bool   `json:"isAdmin"`
		}
		_ = json.Unmarshal(body, &tk)
		return true, tk.IsAdmin, code
	}
	return false, false, code
}

// authWS performs the websocket connect handshake with the real centrifuge client over the in-memory network.
func (a *authSim) authWS(tok string) bool {
	lis := a.lis
	dial := func(ctx context.Context, network, addr string) (net.Conn, error) {
		c, s := simPipe(simAddr{"client:1"}, simAddr{"sim:80"})
		lis.Offer(s)
		return c, nil
	}
	cl := centrifuge.NewJsonClient("ws://sim/connection/websocket", centrifuge.Config{Token: tok, NetDialContext: dial, ReadTimeout: 5 * time.Second, HandshakeTimeout: 5 * time.Second})
	res := make(chan bool, 4)
	cl.OnConnected(func(centrifuge.ConnectedEvent) { res <- true })
	cl.OnDisconnected(func(centrifuge.DisconnectedEvent) { res <- false })
	cl.OnError(func(centrifuge.ErrorEvent) {})
	if err := cl.Connect(); err != nil {
		cl.Close()
		return false
	}
	defer cl.Close()
	select {
	case ok := <-res:
		a.wsChecks++
		return ok
	case <-time.After(20 * time.Second):
		Infra("websocket connect neither succeeded nor failed within 20 s of real time")
	}
	return false
}

func (a *authSim) expect(tok string) (bool, bool) {
	if tok == a.admin {
		return true, true
	}
	for _, x := range a.live {
		if x == tok {
			return true, false
		}
	}
	return false, false
}

func (a *authSim) authenticate() {
	t := a.r.T
	all := append(append([]string{a.admin, "never-issued"}, a.live...), a.revoked...)
	tok := all[t.Draw(len(all), "auth-tok")]
	viaWS, viaData := t.Chance(1, 3, "via-ws"), t.Chance(1, 2, "via-data-route")
	// "creating or revoking one token never changes the validity of any other": also while the create / revoke of
	// another token is still in flight on another pooled connection (write transaction open on the tokens table)
	if t.Chance(1, 4, "auth-during-token-write") {
		a.w.WithWriteInFlight("tokens", "token", func() { a.checkToken(tok, "authenticate-during-write", viaWS, viaData) })
		return
	}
	a.checkToken(tok, "authenticate", viaWS, viaData)
}

func (a *authSim) checkToken(tok, when string, viaWS, viaData bool) {
	r := a.r
	expOK, expAdmin := a.expect(tok)
	if !a.useAuth {
		return
	}
	kind := "never-issued"
	switch {
	case tok == a.admin:
		kind = "admin"
	case expOK:
		kind = "live"
	default:
		for _, x := range a.revoked {
			if x == tok {
				kind = "revoked"
			}
		}
	}
	ok, adm, code := a.authHTTP(tok)
	if ok != expOK || (ok && adm != expAdmin) {
		r.Fail("C10", "http-auth", fmt.Sprintf("%s|%s", kind, when), "token %s (%s): GET /access -> %d admin=%v; model: authenticated=%v admin=%v", tok, kind, code, adm, expOK, expAdmin)
	}
	if viaData {
		c2, b2 := a.w.HTTP("GET", "/api/v1/chain/tip/longest", nil, bearer(tok))
		if (c2 == 200) != expOK {
			r.Fail("C10", "http-auth", fmt.Sprintf("%s|%s|data-route", kind, when), "token %s (%s): GET tip/longest -> %d %s; model: authenticated=%v", tok, kind, c2, truncate(string(b2), 100), expOK)
		}
	}
	if viaWS {
		got := a.authWS(tok)
		r.Logf("ws-connect %s (%s) -> %v", tok, kind, got)
		if got != expOK {
			r.Fail("C10", "ws-auth", fmt.Sprintf("%s|%s", kind, when), "token %s (%s): websocket connect accepted=%v; model: %v", tok, kind, got, expOK)
		}
	}
}

// checkAll: creating or revoking one token never changes the validity of any other.
func (a *authSim) checkAll(when string) {
	for _, tok := range append(append([]string{a.admin}, a.live...), a.revoked...) {
		a.checkToken(tok, when, false, false)
	}
}

// ---------------------------------------------------------------------------------------------
// C09 route sweep

type cred struct{ name, header string }

func (a *authSim) creds() []cred {
	cs := []cred{
		{"none", ""},
		{"empty", " "},
		{"wrong-scheme", "Basic " + a.admin},
		{"lowercase-scheme", "bearer " + a.admin},
		{"extra-parts", "Bearer " + a.admin + " x"},
		{"no-space", "Bearer" + a.admin},
		{"bearer-only", "Bearer"},
		{"bearer-blank", "Bearer "},
		{"bearer-two-blanks", "Bearer  " + a.admin},
		{"unknown", "Bearer not-a-token"},
		{"admin", "Bearer " + a.admin},
		// near misses of the admin token
		{"admin+suffix", "Bearer " + a.admin + "x"},
		{"admin-prefix", "Bearer " + a.admin[:len(a.admin)-1]},
		{"admin-othercase", "Bearer " + swapCase(a.admin)},
	}
	if len(a.live) > 0 {
		u := a.live[0]
		cs = append(cs, cred{"user+suffix", "Bearer " + u + "0"}, cred{"user-prefix", "Bearer " + u[:len(u)-1]})
		// credentials that are only "equal" to an issued token under a looser comparison than equality: SQL patterns,
		// another letter case (wave 9: token looked up with LIKE)
		cs = append(cs, cred{"user-othercase", "Bearer " + swapCase(u)}, cred{"user-one-wildcard", "Bearer _" + u[1:]},
			cred{"user-prefix-percent", "Bearer " + u[:len(u)/2] + "%"}, cred{"all-underscores", "Bearer " + strings.Repeat("_", len(u))})
	}
	cs = append(cs, cred{"percent", "Bearer %"}, cred{"underscore-percent", "Bearer _%"},
		// no credentials at all, but the headers of a websocket upgrade (wave 9: "upgrades are authenticated elsewhere")
		cred{"none+upgrade", ""}, cred{"unknown+upgrade", "Bearer not-a-token"})
	if len(a.revoked) > 0 {
		cs = append(cs, cred{"revoked", "Bearer " + a.revoked[len(a.revoked)-1]})
	}
	if len(a.live) > 0 {
		cs = append(cs, cred{"user", "Bearer " + a.live[0]})
	}
	return cs
}

func swapCase(s string) string {
	b := []byte(s)
	for i, c := range b {
		switch {
		case c >= 'a' && c <= 'z':
			b[i] = c - 32
		case c >= 'A' && c <= 'Z':
			b[i] = c + 32
		}
	}
	if string(b) == s {
		return s + "_"
	}
	return string(b)
}

func concretePath(p string) string {
	segs := strings.Split(p, "/")
	for i, s := range segs {
		switch {
		case strings.HasPrefix(s, ":token"):
			segs[i] = "sweep-dummy-token"
		case strings.HasPrefix(s, ":"):
			segs[i] = strings.Repeat("0", 63) + "1"
		case strings.HasPrefix(s, "*"):
			segs[i] = "index.html"
		}
	}
	return strings.Join(segs, "/")
}

func (a *authSim) digests() string {
	return a.w.TableDigest("tokens") + a.w.TableDigest("webhooks") + a.w.TableDigest("headers")
}

func (a *authSim) sweep() {
	r, w := a.r, a.w
	routes := w.Gin.Routes()
	sort.Slice(routes, func(i, j int) bool {
		if routes[i].Path != routes[j].Path {
			return routes[i].Path < routes[j].Path
		}
		return routes[i].Method < routes[j].Method
	})
	r.Logf("sweep %d routes, auth=%v", len(routes), a.useAuth)
	seenPprof, seenMetrics := false, false
	for _, rt := range routes {
		api := strings.HasPrefix(rt.Path, "/api/v1/") || rt.Path == "/api/v1"
		if !api {
			ok := rt.Path == "/status" || strings.HasPrefix(rt.Path, "/swagger/") || rt.Path == "/metrics" ||
				strings.HasPrefix(rt.Path, "/pprof/debug/") || rt.Path == "/connection/websocket"
			if strings.HasPrefix(rt.Path, "/pprof/debug/") {
				seenPprof = true
				if !w.Cfg.HTTP.ProfilingEndpointsEnabled {
					r.Fail("C09", "route-outside-prefix", "pprof-while-disabled", "profiling route %s %s is registered although profiling is disabled", rt.Method, rt.Path)
				}
			}
			if !ok {
				r.Fail("C09", "route-outside-prefix", rt.Method+" "+rt.Path, "route %s %s exists outside the authenticated prefix", rt.Method, rt.Path)
			}
			if rt.Path == "/metrics" {
				seenMetrics = true
				if !w.Cfg.Metrics.Enabled {
					r.Fail("C09", "route-outside-prefix", "metrics-while-disabled", "the metrics route is registered although metrics are disabled")
				}
			}
			continue
		}
		admin := (rt.Method == "POST" && rt.Path == "/api/v1/access") || (rt.Method == "DELETE" && strings.HasPrefix(rt.Path, "/api/v1/access/"))
		path := concretePath(rt.Path)
		for _, c := range a.creds() {
			valid := c.name == "admin" || c.name == "user"
			hdr := map[string]string{}
			if c.header != "" {
				hdr["Authorization"] = c.header
			}
			if strings.HasSuffix(c.name, "+upgrade") {
				hdr["Connection"] = "keep-alive, Upgrade"
				hdr["Upgrade"] = "websocket"
			}
			mustReject := a.useAuth && (!valid || (admin && c.name != "admin"))
			before := ""
			if mustReject {
				before = a.digests()
			}
			r.Count("sweep_requests")
			code, body := w.HTTP(rt.Method, path, nil, hdr)
			sig := fmt.Sprintf("%s %s|cred=%s|auth=%v", rt.Method, rt.Path, c.name, a.useAuth)
			if mustReject {
				var obj map[string]any
				if code != 401 {
					r.Fail("C09", "not-rejected", sig, "%s %s with credential %q -> %d %s, expected 401", rt.Method, path, c.name, code, truncate(string(body), 120))
				}
				if err := parseOneJSON(body, &obj); err != nil || obj["code"] == nil || obj["message"] == nil {
					r.Fail("C09", "unstructured-401", sig, "%s %s with credential %q -> 401 body %q", rt.Method, path, c.name, truncate(string(body), 120))
				}
				if a.digests() != before {
					r.Fail("C09", "state-changed-by-rejected-request", sig, "%s %s with credential %q was rejected but changed tokens/webhooks/headers", rt.Method, path, c.name)
				}
				// the same request with its prefix spelt differently (percent-encoded characters): whatever the router
				// makes of it, it is not a way around the check
				if c.name == "none" || c.name == "unknown" {
					for _, alt := range []string{strings.Replace(path, "/api/", "/%61pi/", 1), strings.Replace(path, "/v1", "/v%31", 1), strings.Replace(path, "/api/v1/", "/api%2Fv1/", 1)} {
						if alt == path {
							continue
						}
						before2 := a.digests()
						code2, body2 := w.HTTP(rt.Method, alt, nil, hdr)
						r.Count("sweep_requests")
						if code2 != 401 && code2 != 404 && code2 != 400 && code2 != 405 && code2 != 301 && code2 != 307 {
							r.Fail("C09", "not-rejected", sig+"|encoded-prefix", "%s %s (the route %s with an encoded prefix) with credential %q -> %d %s, expected a refusal", rt.Method, alt, rt.Path, c.name, code2, truncate(string(body2), 120))
						}
						if a.digests() != before2 {
							r.Fail("C09", "state-changed-by-rejected-request", sig+"|encoded-prefix", "%s %s with credential %q changed tokens/webhooks/headers", rt.Method, alt, c.name)
						}
					}
				}
			} else {
				if code == 401 {
					r.Fail("C09", "rejected-valid", sig, "%s %s with credential %q -> 401 %s", rt.Method, path, c.name, truncate(string(body), 120))
				}
				// an admin POST /access really issues a token: keep the model in step
				if rt.Method == "POST" && rt.Path == "/api/v1/access" && code == 200 {
					var tk struct {
						Token string `json:"token"`
					}
					if json.Unmarshal(body, &tk) == nil && tk.Token != "" {
						a.live = append(a.live, tk.Token)
					}
				}
			}
		}
	}
	if w.Cfg.HTTP.ProfilingEndpointsEnabled && !seenPprof {
		r.Fail("C09", "route-missing", "pprof-enabled", "profiling is enabled but no profiling route is registered")
	}
	if w.Cfg.Metrics.Enabled && !seenMetrics {
		r.Fail("C09", "route-missing", "metrics-enabled", "metrics are enabled but the metrics route is not registered")
	}
	if seenMetrics {
		r.Probe("metrics-route-present")
	}
}

// failClosed: when the token store fails on lookup the answer must still be 401.
func (a *authSim) failClosed() {
	if !a.useAuth {
		return
	}
	r := a.r
	if a.sqlLookupFaults && r.T.Chance(2, 3, "lookup-fault-in-driver") {
		a.failTokQuery = true
		defer func() { a.failTokQuery = false }()
	} else {
		a.failTok = true
		defer func() { a.failTok = false }()
	}
	r.Fault("token-lookup-error")
	for _, tok := range append([]string{"not-a-token"}, a.live...) {
		before := a.digests()
		code, body := a.w.HTTP("GET", "/api/v1/chain/tip/longest", nil, bearer(tok))
		if code != 401 {
			r.Fail("C09", "fail-open", "token-store-error", "token store failing on lookup: GET tip/longest with %s -> %d %s", tok, code, truncate(string(body), 100))
		}
		if a.digests() != before {
			r.Fail("C09", "state-changed-by-rejected-request", "token-store-error", "rejected request changed state")
		}
	}
	code, _ := a.w.HTTP("GET", "/api/v1/access", nil, bearer(a.admin))
	if code != 200 {
		r.Fail("C10", "http-auth", "admin|token-store-error", "admin token stopped authenticating while the token store fails: %d", code)
	}
}

var _ = io.EOF
