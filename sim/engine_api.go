package verifsim

import (
	"bytes"
	"encoding/json"
	"errors"
	"fmt"
	"io"
	"math"
	"net/url"
	"sort"
	"strings"

	"github.com/bitcoin-sv/block-headers-service/domains"
	"github.com/bitcoin-sv/block-headers-service/internal/chaincfg/chainhash"
	"github.com/bitcoin-sv/block-headers-service/internal/wire"
)

// apisim: client requests interleaved with ingestion histories (reorganisations, restarts), every answer
// compared with the reference model. Serves C02, C04, C08, C13 (service part) and C16.

func init() {
	register(&Engine{Name: "apisim", Props: []string{"C02", "C04", "C08", "C13", "C16"}, Exec: apisimExec})
}

type apiSim struct {
	r      *Run
	w      *World
	h      *Hist
	excess int
	viaSim bool // the world sits on the wrapper SQL driver
	long   bool // the longest chain is about as long as, or longer than, the default page of the listing
	// non-triviality bookkeeping
	nt map[string]int
}

func apisimExec(r *Run) {
	w := NewWorld(r)
	defer w.Destroy()
	a := &apiSim{r: r, w: w, nt: map[string]int{}}
	// MaxInt32 = "no limit": the window arithmetic must not wrap (wave 9, C02-m8); request heights stay within int32 (clampH)
	a.excess = []int{6, 0, 1, 2, 100, math.MaxInt32}[r.T.Pick([]int{40, 15, 15, 15, 15, 8}, "excess")]
	w.Cfg.MerkleRoot.MaxBlockHeightExcess = a.excess
	r.Cfg["excess"] = a.excess
	// metrics can only be switched on once per process (package-level registry): the runner gives every other worker
	// process of the C16 check the option metrics=1 (the request tracker then wraps every handler)
	if r.Prop == "C16" {
		w.Cfg.Metrics.Enabled = r.Opt["metrics"] == "1"
		r.Cfg["metrics"] = w.Cfg.Metrics.Enabled
	}
	// a third of the C02 runs sit on the wrapper SQL driver: a header can then be stored BETWEEN two reads of one
	// verify request (c02Concurrent)
	if (r.Prop == "C02" || r.Prop == "C04" || r.Prop == "C13") && r.T.Chance(1, 3, "via-sql-wrapper") {
		a.viaSim = true
		defer func() { sqlQueryHook, sqlFail = nil, nil }()
		w.OpenSim()
	} else {
		w.Open()
	}
	h := NewHist(r, w)
	a.h = h
	h.SoftChecks = true
	// zero-work headers are C01's recorded known finding; with them the store would differ from the model on the
	// unchanged tree and this engine's own oracles would report the consequences
	r.Opt = withOpt(r.Opt, "nozero", "1")
	cap := 0
	if r.Tier == "quick" {
		cap = 24
	}
	h.DrawCfg(cap)
	long := false
	if r.Prop == "C13" || r.Prop == "C08" || r.Prop == "C04" {
		den := 40
		if r.Tier == "thorough" {
			den = 8
		}
		if r.Prop == "C08" || r.Prop == "C04" { // C04 (wave 10): reads over paths longer than 2000 headers
			// the listing over a chain longer than the default page (2000): rare in the quick tier (a long chain costs
			// seconds: about one run per worker of a quick check), walked with the default page, its neighbours and
			// sizes beyond it
			den *= 40
		}
		if r.Opt["longchain"] == "1" || r.T.Chance(1, den, "long-chain") {
			long = true
			n := r.T.Range(1990, 2300, "long-len")
			if r.Tier == "thorough" && r.T.Chance(1, 4, "very-long") {
				n = r.T.Range(4000, 4500, "very-long-len")
			}
			h.ExtendBest(n)
			r.Probe("long-chain")
			r.Cfg["long"] = n
			a.long = true
		}
	}
	if r.Prop == "C08" || r.Prop == "C02" || r.Prop == "C04" {
		// the listing / the verdicts / the reads after a reorganisation of a boundary size
		den := 120
		if r.Tier == "thorough" {
			den = 30
		}
		h.MaybeBigReorg(den)
	}
	pBatch := r.T.Range(20, 100, "p-batch")
	for i := 0; h.StepOp(i); i++ {
		if r.T.Chance(pBatch, 100, "batch?") {
			a.batch()
		}
	}
	if long {
		h.CheckStore("long-chain-final")
	}
	a.batch()
	if h.Deferred != nil {
		panic(violationPanic{h.Deferred})
	}
	r.Shape = append(h.ShapeLines(), fmt.Sprintf("excess=%d nt=%v", a.excess, a.nt))
	switch r.Prop {
	case "C02":
		r.Nontrivial = a.nt["verify-after-reorg-changed-label"] > 0
	case "C04":
		r.Nontrivial = a.nt["rich-store"] > 0
	case "C08":
		r.Nontrivial = a.nt["walk>=3pages+stale-sibling"] > 0
	case "C13":
		r.Nontrivial = a.nt["stale-above-start"] > 0 || a.nt["cap-limited"] > 0
	case "C16":
		r.Nontrivial = a.nt["malformed"] > 0 && (h.nFork > 0 || h.nOrphan > 0)
	}
}

func (a *apiSim) batch() {
	r, w := a.r, a.w
	r.Step++
	before := w.TableDigest("headers")
	// "at any moment": a quarter of the read-only batches run while a write transaction of another pooled connection
	// is open on the headers table (what a reader meets while the sync engine stores a batch)
	inflight := func(f func()) {
		if r.T.Chance(1, 4, "write-in-flight") {
			w.WithWriteInFlight("headers", "header_state", f)
			return
		}
		f()
	}
	switch r.Prop {
	case "C02":
		if a.viaSim && r.T.Chance(1, 3, "verify-while-ingesting") {
			a.c02Concurrent()
			return // (this batch ingests on purpose)
		}
		inflight(a.c02)
	case "C04":
		if a.viaSim && r.T.Chance(1, 3, "read-while-ingesting") {
			a.c04Concurrent()
			return // (this batch ingests on purpose)
		}
		inflight(a.c04)
	case "C08":
		a.c08()
		if st := w.DB.Stats(); st.InUse != 0 {
			r.Fail(r.Prop, "connection-leak", fmt.Sprintf("in-use=%d", st.InUse), "after the listing requests had all been answered %d connection(s) of the database pool are still in use", st.InUse)
		}
		return // c08 may ingest between pages; it has its own read-only accounting
	case "C13":
		inflight(a.c13)
	case "C16":
		a.c16()
	}
	if after := w.TableDigest("headers"); after != before {
		prop := r.Prop
		if prop != "C16" {
			prop = "C04"
		}
		r.Fail(prop, "read-modified-store", "batch", "client requests changed the headers table")
	}
	// every request is over: no connection of the service's pool may still be checked out (a leaked one keeps its read
	// cursor and its lock on the file, and the next write waits for it in vain)
	if st := w.DB.Stats(); st.InUse != 0 {
		r.Fail(r.Prop, "connection-leak", fmt.Sprintf("in-use=%d", st.InUse), "after the requests of this batch had all been answered %d connection(s) of the database pool are still in use", st.InUse)
	}
}

// parseOneJSON requires the body to be exactly one JSON value.
func parseOneJSON(body []byte, into any) error {
	dec := json.NewDecoder(bytes.NewReader(body))
	dec.UseNumber()
	if err := dec.Decode(into); err != nil {
		return err
	}
	var extra any
	if err := dec.Decode(&extra); err != io.EOF {
		return fmt.Errorf("more than one JSON document in the body")
	}
	return nil
}

func (a *apiSim) anyHeader(label string) *MHeader {
	m := a.h.m
	return m.Headers[a.r.T.Draw(len(m.Headers), label)]
}

// ----------------------------------------------------------------------------------------------
// C02 merkle-root verdicts

type verifyItem struct {
	MerkleRoot  string `json:"merkleRoot"`
	BlockHeight int64  `json:"blockHeight"`
}

func (a *apiSim) c02() {
	r, m := a.r, a.h.m
	t := r.T
	lc := m.LongestChain()
	tip := int64(len(lc) - 1)
	n := t.Range(1, 6, "verify-n")
	items := make([]verifyItem, 0, n)
	touchedChanged := false
	for i := 0; i < n; i++ {
		var it verifyItem
		switch t.Pick([]int{30, 15, 15, 10, 10, 10, 10}, "item-kind") {
		case 0: // longest block, right height
			x := lc[t.Draw(len(lc), "lc-idx")]
			it = verifyItem{x.Raw.Merkle.String(), int64(x.Height)}
		case 1: // any stored block at its own height (stale / orphan / longest)
			x := a.anyHeader("any-idx")
			it = verifyItem{x.Raw.Merkle.String(), int64(x.Height)}
		case 2: // stored root, wrong height
			x := a.anyHeader("any-idx")
			it = verifyItem{x.Raw.Merkle.String(), int64(x.Height) + int64(t.Range(-2, 3, "dh"))}
		case 3: // unknown root within chain
			it = verifyItem{a.h.uniqueHash("unknown-root").String(), int64(t.Range(0, int(tip), "h"))}
		case 4: // heights around tip + excess
			x := a.anyHeader("any-idx")
			it = verifyItem{x.Raw.Merkle.String(), clampH(tip + int64(a.excess) + int64(t.Range(-3, 3, "dh")))}
		case 5: // unknown root above the tip
			it = verifyItem{a.h.uniqueHash("unknown-root").String(), clampH(tip + int64(t.Range(-1, a.excess+3, "dh")))}
		case 6: // negative / huge heights
			x := a.anyHeader("any-idx")
			it = verifyItem{x.Raw.Merkle.String(), []int64{-1, -3, -2147483648, 2147483647, 2147483646 - tip}[t.Draw(5, "odd-h")]}
		}
		// strings that are no merkle root at all but mean something to a pattern match or a parser
		if t.Chance(1, 10, "odd-root") {
			x := lc[t.Draw(len(lc), "odd-root-lc")]
			root := x.Raw.Merkle.String()
			odd := []string{"%", "_", root[:10] + "%", "%" + root[54:], root[:31] + "_" + root[32:], strings.ToUpper(root), " " + root, root + " ", "", "*", root[:63]}
			it = verifyItem{odd[t.Draw(len(odd), "odd-root-kind")], int64(x.Height)}
			if it.MerkleRoot == root { // (a root without letters has no other case)
				it.MerkleRoot = "%"
			}
		}
		if len(items) > 0 && t.Chance(1, 8, "dup-item") {
			it = items[t.Draw(len(items), "dup-of")]
		}
		items = append(items, it)
	}
	body, _ := json.Marshal(items)
	code, resp := a.w.HTTP("POST", "/api/v1/chain/merkleroot/verify", body, nil)
	r.Logf("verify %s -> %d", string(body), code)
	var out struct {
		ConfirmationState string `json:"confirmationState"`
		Confirmations     []struct {
			Hash         string `json:"blockHash"`
			BlockHeight  int64  `json:"blockHeight"`
			MerkleRoot   string `json:"merkleRoot"`
			Confirmation string `json:"confirmation"`
		} `json:"confirmations"`
	}
	if code != 200 || parseOneJSON(resp, &out) != nil {
		r.Fail("C02", "status", fmt.Sprintf("code=%d", code), "verify answered %d %s", code, string(resp))
	}
	if len(out.Confirmations) != len(items) {
		r.Fail("C02", "count", "items-vs-verdicts", "%d items submitted, %d verdicts returned: %s", len(items), len(out.Confirmations), string(resp))
	}
	rank := map[string]int{"CONFIRMED": 0, "UNABLE_TO_VERIFY": 1, "INVALID": 2}
	worst := "CONFIRMED"
	for i, it := range items {
		got := out.Confirmations[i]
		exp, expHash := "INVALID", ""
		if x := m.LongestAt(it.BlockHeight); x != nil && x.Raw.Merkle.String() == it.MerkleRoot {
			exp, expHash = "CONFIRMED", x.HashStr()
		} else if it.BlockHeight > tip && it.BlockHeight-tip <= int64(a.excess) {
			exp = "UNABLE_TO_VERIFY"
		}
		if rank[exp] > rank[worst] {
			worst = exp
		}
		// classify the item for the signature
		kind := "root-unknown"
		for _, x := range m.Headers {
			if x.Raw.Merkle.String() == it.MerkleRoot {
				kind = "root-of-" + x.Label
				if int64(x.Height) == it.BlockHeight {
					kind += "@own-height"
					break
				}
			}
		}
		rel := "in-chain"
		switch {
		case it.BlockHeight < 0:
			rel = "negative"
		case it.BlockHeight > tip+int64(a.excess):
			rel = "beyond-excess"
		case it.BlockHeight > tip:
			rel = "within-excess"
		}
		sig := fmt.Sprintf("%s,%s,exp=%s,got=%s", kind, rel, exp, got.Confirmation)
		if got.MerkleRoot != it.MerkleRoot || got.BlockHeight != it.BlockHeight {
			r.Fail("C02", "order", "item-echo", "verdict %d is for (%s,%d), item %d was (%s,%d)", i, got.MerkleRoot, got.BlockHeight, i, it.MerkleRoot, it.BlockHeight)
		}
		if got.Confirmation != exp {
			r.Fail("C02", "verdict", sig, "item (%s.., h=%d): verdict %s, model %s (tip %d, excess %d)", it.MerkleRoot[:8], it.BlockHeight, got.Confirmation, exp, tip, a.excess)
		}
		if exp == "CONFIRMED" && got.Hash != expHash {
			r.Fail("C02", "block-hash", sig, "CONFIRMED item (%s.., h=%d) carries blockHash %s, longest header at that height is %s", it.MerkleRoot[:8], it.BlockHeight, got.Hash, expHash)
		}
		if a.h.nLabelChange > 0 && strings.HasPrefix(kind, "root-of-") {
			touchedChanged = true
		}
	}
	if out.ConfirmationState != worst {
		r.Fail("C02", "aggregate", "worst-of", "overall %s, worst individual verdict %s", out.ConfirmationState, worst)
	}
	if touchedChanged {
		a.nt["verify-after-reorg-changed-label"]++
	}
	// the same verdicts through the service interface
	req := make([]domains.MerkleRootConfirmationRequestItem, len(items))
	for i, it := range items {
		req[i] = domains.MerkleRootConfirmationRequestItem{MerkleRoot: it.MerkleRoot, BlockHeight: int32(it.BlockHeight)}
	}
	sv, err := a.w.Svc.Merkleroots.GetMerkleRootsConfirmations(req)
	if err != nil || len(sv) != len(items) {
		r.Fail("C02", "service", "count", "service returned %d verdicts (err %v) for %d items", len(sv), err, len(items))
	}
	for i := range sv {
		if string(sv[i].Confirmation) != out.Confirmations[i].Confirmation {
			r.Fail("C02", "service", "differs-from-http", "service verdict %d = %s, HTTP said %s", i, sv[i].Confirmation, out.Confirmations[i].Confirmation)
		}
	}
}

// c02Concurrent: one verify request during which a new tip header is stored between two of the request's reads.
// Every verdict has to be the verdict of the store before OR after that header (per item: the request is not a
// snapshot), never one that belongs to neither.
func (a *apiSim) c02Concurrent() {
	r, h := a.r, a.h
	t := r.T
	m := h.m
	lc := m.LongestChain()
	tip := int64(len(lc) - 1)
	best := m.Best()
	raw := RawHeader{Prev: best.Hash, Merkle: h.uniqueHash("merkle"), Version: 0x20000000, Bits: bitsNormal[0], Time: h.baseTs + h.ctr*600, Nonce: h.ctr}
	rootX := raw.Merkle.String()
	verdict := func(root string, height, tipH int64, chain func(int64) string) string {
		if height >= 0 && chain(height) == root {
			return "CONFIRMED"
		}
		if height > tipH && height-tipH <= int64(a.excess) {
			return "UNABLE_TO_VERIFY"
		}
		return "INVALID"
	}
	preRoots := map[int64]string{} // (taken now: the model moves on when the header is stored)
	for _, x := range lc {
		preRoots[int64(x.Height)] = x.Raw.Merkle.String()
	}
	pre := func(hh int64) string { return preRoots[hh] }
	post := func(hh int64) string {
		if hh == tip+1 {
			return rootX
		}
		return pre(hh)
	}
	items := []verifyItem{{rootX, tip + 1}, {lc[tip].Raw.Merkle.String(), tip}, {h.uniqueHash("unknown-root").String(), tip + 1},
		{rootX, clampH(tip + 1 + int64(a.excess))}, {h.uniqueHash("unknown-root").String(), clampH(tip + 1 + int64(a.excess))}, {rootX, tip}}
	// a drawn subset in a drawn order
	n := t.Range(1, len(items), "cv-n")
	for i := 0; i < n; i++ {
		j := i + t.Draw(len(items)-i, "cv-pick")
		items[i], items[j] = items[j], items[i]
	}
	items = items[:n]
	at := t.Range(1, n+1, "cv-at") // the header arrives before the at-th read of the request (0-based)
	seen := 0
	sqlQueryHook = func(string) {
		if seen == at {
			sqlQueryHook = nil
			h.Submit(raw, "during-verify")
			r.Fault("header-stored-between-two-reads")
		}
		seen++
	}
	body, _ := json.Marshal(items)
	code, resp := a.w.HTTP("POST", "/api/v1/chain/merkleroot/verify", body, nil)
	fired := sqlQueryHook == nil
	sqlQueryHook = nil
	r.Logf("verify (header stored before read %d: %v) %s -> %d", at, fired, string(body), code)
	var out struct {
		Confirmations []struct {
			BlockHeight  int64  `json:"blockHeight"`
			MerkleRoot   string `json:"merkleRoot"`
			Confirmation string `json:"confirmation"`
		} `json:"confirmations"`
	}
	if code != 200 || parseOneJSON(resp, &out) != nil || len(out.Confirmations) != len(items) {
		r.Fail("C02", "status", fmt.Sprintf("concurrent-ingest,code=%d", code), "verify during ingestion answered %d %s", code, truncate(string(resp), 200))
	}
	if !fired {
		h.Submit(raw, "after-verify") // the request needed fewer reads than drawn: plain sequential case
	}
	for i, it := range items {
		got := out.Confirmations[i].Confirmation
		p, q := verdict(it.MerkleRoot, it.BlockHeight, tip, pre), verdict(it.MerkleRoot, it.BlockHeight, tip+1, post)
		if !fired {
			q = p
		}
		if got != p && got != q {
			kind := "unknown-root"
			if it.MerkleRoot == rootX {
				kind = "new-root"
			} else if it.MerkleRoot == lc[tip].Raw.Merkle.String() {
				kind = "old-tip-root"
			}
			r.Fail("C02", "verdict", fmt.Sprintf("concurrent-ingest,%s,dh=%d,before=%s,after=%s,got=%s", kind, it.BlockHeight-tip, p, q, got),
				"verify while header %s (height %d) was being stored: item (%s.., h=%d) got %s; the store before it implies %s, the store after it %s (tip %d -> %d, excess %d)",
				short(raw.Hash()), tip+1, it.MerkleRoot[:8], it.BlockHeight, got, p, q, tip, tip+1, a.excess)
		}
	}
}

// ----------------------------------------------------------------------------------------------
// C04 read endpoints

// c04Concurrent: "at any moment" - one read request is answered while a header (extension, fork, reorganisation,
// orphan, whatever the history generator draws) is stored between two of the request's own read statements. The
// oracle needs no model: the same request is asked before (store S0) and after (store S1), sequentially; the answer
// given in between must be one of the two, byte for byte. (Sequential answers are judged against the model by c04.)
func (a *apiSim) c04Concurrent() {
	r, h, w := a.r, a.h, a.w
	t := r.T
	m := h.m
	raw := h.NewHeader()
	newHash := raw.Hash().String()
	some := func(lbl string) string {
		if t.Chance(1, 6, lbl+"-new") {
			return newHash // unknown before, stored after
		}
		return m.Headers[t.Draw(len(m.Headers), lbl)].HashStr()
	}
	method, path := "GET", ""
	var body []byte
	kind := t.Draw(7, "cr-kind")
	tipH := len(m.LongestChain()) - 1
	switch kind {
	case 0:
		path = "/api/v1/chain/header/" + some("cr-hash")
	case 1:
		path = "/api/v1/chain/header/state/" + some("cr-hash")
	case 2:
		path = fmt.Sprintf("/api/v1/chain/header/byHeight?height=%d&count=%d", t.Range(0, tipH+1, "cr-from"), t.Range(1, 6, "cr-count"))
	case 3:
		path = "/api/v1/chain/tip"
	case 4:
		path = "/api/v1/chain/tip/longest"
	case 5:
		path = "/api/v1/chain/header/" + some("cr-x") + "/" + some("cr-y") + "/ancestor"
	case 6:
		method, path = "POST", "/api/v1/chain/header/commonAncestor"
		n := t.Range(1, 4, "cr-n")
		var hs []string
		for i := 0; i < n; i++ {
			hs = append(hs, some("cr-ca"))
		}
		body, _ = json.Marshal(hs)
	}
	route := []string{"header", "state", "byHeight", "tips", "tip-longest", "ancestor", "commonAncestor"}[kind]
	ask := func() (int, []byte) { return w.HTTP(method, path, body, nil) }
	c0, b0 := ask()
	at := t.Range(0, 5, "cr-at") // the header is stored before the at-th read statement of the request (0-based)
	seen := 0
	sqlQueryHook = func(string) {
		if seen == at {
			sqlQueryHook = nil
			h.Submit(raw, "during-read")
			r.Fault("header-stored-between-two-reads")
		}
		seen++
	}
	cc, bc := ask()
	fired := sqlQueryHook == nil
	sqlQueryHook = nil
	if !fired {
		h.Submit(raw, "after-read") // the request needed fewer reads than drawn: plain sequential case
	}
	c1, b1 := ask()
	r.Logf("read %s %s while a header was stored before its read %d (%v): before %d, during %d, after %d", method, path, at, fired, c0, cc, c1)
	if !(cc == c0 && bytes.Equal(bc, b0)) && !(cc == c1 && bytes.Equal(bc, b1)) {
		r.Fail("C04", "answer-of-no-moment", fmt.Sprintf("%s|during=%d,before=%d,after=%d", route, cc, c0, c1),
			"%s %s answered %d %s while header %s was being stored (before the request's read %d); asked before, the service answered %d %s; asked after, %d %s: the answer in between is the one of neither store",
			method, path, cc, truncate(string(bc), 240), short(raw.Hash()), at, c0, truncate(string(b0), 240), c1, truncate(string(b1), 240))
	}
	if fired && (c0 != c1 || !bytes.Equal(b0, b1)) {
		r.Probe("concurrent-read-whose-answer-changes")
	}
}

type hdrJSON struct {
	Hash    string      `json:"hash"`
	Version int32       `json:"version"`
	Prev    string      `json:"prevBlockHash"`
	Merkle  string      `json:"merkleRoot"`
	Ts      uint32      `json:"creationTimestamp"`
	Bits    uint32      `json:"difficultyTarget"`
	Nonce   uint32      `json:"nonce"`
	Work    json.Number `json:"work"`
}

func hdrMatches(j hdrJSON, x *MHeader) bool {
	return j.Hash == x.HashStr() && j.Version == x.Raw.Version && j.Prev == x.Raw.Prev.String() && j.Merkle == x.Raw.Merkle.String() &&
		j.Ts == x.Raw.Time && j.Bits == x.Raw.Bits && j.Nonce == x.Raw.Nonce && j.Work.String() == x.Work.String()
}

// linkAmbiguous reports whether x's ancestry by previous-hash differs from its ancestry by arrival-time links
// (an orphan whose parent arrived later): the statement does not define queries across such links.
func (a *apiSim) linkAmbiguous(x *MHeader) bool {
	m := a.h.m
	for c := x; c != nil; c = c.Parent {
		if c.Parent == nil && c.Height != 0 {
			if _, ok := m.ByHash[c.Raw.Prev]; ok {
				return true
			}
		}
	}
	return false
}

func (a *apiSim) modelAncestor(anc, x *MHeader) bool {
	for c := x; c != nil; c = c.Parent {
		if c == anc {
			return true
		}
	}
	return false
}

func (a *apiSim) c04() {
	r, w, m := a.r, a.w, a.h.m
	t := r.T
	nonLongestBranches := 0
	for _, x := range m.Tips() {
		if x.Label != LLongest {
			nonLongestBranches++
		}
	}
	if (nonLongestBranches >= 2 || a.h.nOrphan >= 2) && a.h.nLabelChange > 0 {
		a.nt["rich-store"]++
	}
	nq := t.Range(2, 8, "c04-n")
	for q := 0; q < nq; q++ {
		switch t.Pick([]int{15, 10, 20, 10, 20, 20, 5}, "c04-kind") {
		case 0: // header by hash
			x := a.anyHeader("hdr")
			code, body := w.HTTP("GET", "/api/v1/chain/header/"+x.HashStr(), nil, nil)
			var j hdrJSON
			if code != 200 || parseOneJSON(body, &j) != nil || !hdrMatches(j, x) {
				r.Fail("C04", "header-by-hash", x.Label, "GET header/%s -> %d %s, stored %+v", short(x.Hash), code, string(body), x.Raw)
			}
		case 1: // unknown hash -> 404
			u := a.h.uniqueHash("unknown-q")
			p := []string{"/api/v1/chain/header/", "/api/v1/chain/header/state/"}[t.Draw(2, "which")]
			code, body := w.HTTP("GET", p+u.String(), nil, nil)
			if code != 404 {
				r.Fail("C04", "unknown-hash", p, "GET %s<unknown> -> %d %s, expected 404", p, code, string(body))
			}
		case 2: // by height window
			maxH := 0
			for _, x := range m.Headers {
				if int(x.Height) > maxH {
					maxH = int(x.Height)
				}
			}
			from := t.Range(0, maxH+2, "from")
			count := t.Range(1, 6, "count")
			q := fmt.Sprintf("/api/v1/chain/header/byHeight?height=%d&count=%d", from, count)
			if t.Chance(1, 5, "no-count") {
				q = fmt.Sprintf("/api/v1/chain/header/byHeight?height=%d", from)
				count = 1
			}
			code, body := w.HTTP("GET", q, nil, nil)
			var js []hdrJSON
			wantLongest := 0
			for _, x := range m.Headers {
				if x.Label == LLongest && int(x.Height) >= from && int(x.Height) < from+count {
					wantLongest++
				}
			}
			if code != 200 {
				if wantLongest > 0 {
					r.Fail("C04", "by-height", "status", "GET %s -> %d %s although %d longest headers lie in the window", q, code, string(body), wantLongest)
				}
				break
			}
			if err := parseOneJSON(body, &js); err != nil {
				r.Fail("C04", "by-height", "json", "GET %s -> %s (%v)", q, string(body), err)
			}
			seen := map[string]bool{}
			for _, j := range js {
				var hh Hash32
				x := (*MHeader)(nil)
				for _, c := range m.Headers {
					if c.HashStr() == j.Hash {
						x = c
					}
				}
				_ = hh
				if x == nil || !hdrMatches(j, x) {
					r.Fail("C04", "by-height", "not-stored", "GET %s returned %+v which is not a stored header", q, j)
				}
				if int(x.Height) < from || int(x.Height) >= from+count {
					r.Fail("C04", "by-height", "outside-window", "GET %s returned %s of height %d", q, short(x.Hash), x.Height)
				}
				if seen[j.Hash] {
					r.Fail("C04", "by-height", "duplicate", "GET %s returned %s twice", q, short(x.Hash))
				}
				seen[j.Hash] = true
			}
			for _, x := range m.Headers {
				if x.Label == LLongest && int(x.Height) >= from && int(x.Height) < from+count && !seen[x.HashStr()] {
					r.Fail("C04", "by-height", "longest-missing", "GET %s misses longest-chain header %s at height %d", q, short(x.Hash), x.Height)
				}
			}
		case 3: // tips
			code, body := w.HTTP("GET", "/api/v1/chain/tip", nil, nil)
			var js []struct {
				Header hdrJSON     `json:"header"`
				State  string      `json:"state"`
				CW     json.Number `json:"chainWork"`
				Height int32       `json:"height"`
			}
			if code != 200 || parseOneJSON(body, &js) != nil {
				r.Fail("C04", "tips", "status", "GET tip -> %d %s", code, string(body))
			}
			got := map[string]bool{}
			for _, j := range js {
				x := (*MHeader)(nil)
				for _, c := range m.Headers {
					if c.HashStr() == j.Header.Hash {
						x = c
					}
				}
				if x == nil || !hdrMatches(j.Header, x) || j.State != x.Label || j.Height != x.Height || j.CW.String() != x.Cum.String() {
					r.Fail("C04", "tips", "entry", "GET tip entry %+v does not match a stored header", j)
				}
				if got[j.Header.Hash] {
					r.Fail("C04", "tips", "duplicate", "GET tip lists %s twice", j.Header.Hash[:8])
				}
				got[j.Header.Hash] = true
			}
			// must: longest tip + non-longest headers without any stored child (by previous-hash);
			// may: non-longest headers whose only children are orphans that arrived before them.
			for _, x := range m.Headers {
				isTip := x == m.Best()
				ambiguous := false
				if x.Label != LLongest {
					childAny := m.HasStoredChild(x, func(c *MHeader) bool { return c.Label != LLongest })
					childLinked := m.HasStoredChild(x, func(c *MHeader) bool { return c.Label != LLongest && c.Parent == x })
					isTip = !childAny
					ambiguous = childAny && !childLinked
				}
				if ambiguous {
					continue
				}
				if isTip && !got[x.HashStr()] {
					r.Fail("C04", "tips", "missing-"+x.Label, "GET tip misses %s (%s leaf/tip, height %d)", short(x.Hash), x.Label, x.Height)
				}
				if !isTip && got[x.HashStr()] {
					r.Fail("C04", "tips", "extra-"+x.Label, "GET tip lists %s (%s, height %d) which is neither the longest tip nor a leaf", short(x.Hash), x.Label, x.Height)
				}
			}
		case 4: // ancestors
			x := a.anyHeader("anc-x")
			y := a.anyHeader("anc-y")
			if t.Chance(1, 2, "anc-related") { // bias to related pairs
				y = x
				k := t.Range(0, 6, "anc-up")
				if a.long && t.Chance(2, 3, "anc-far") {
					k = t.Range(1990, 2400, "anc-far-up") // a path around and beyond 2000 headers (wave 10: a silent bound in the recursive query)
				}
				for ; k > 0 && y.Parent != nil; k-- {
					y = y.Parent
				}
			}
			if a.linkAmbiguous(x) || a.linkAmbiguous(y) {
				break
			}
			code, body := w.HTTP("GET", "/api/v1/chain/header/"+x.HashStr()+"/"+y.HashStr()+"/ancestor", nil, nil)
			r.Logf("ancestors %s(%s,h%d) %s(%s,h%d) -> %d", short(x.Hash), x.Label, x.Height, short(y.Hash), y.Label, y.Height, code)
			if x == y {
				if code >= 500 {
					r.Fail("C04", "ancestors", "same-hash-5xx", "ancestors(x,x) -> %d %s", code, string(body))
				}
				break
			}
			if a.modelAncestor(y, x) {
				var js []hdrJSON
				if code != 200 || parseOneJSON(body, &js) != nil {
					r.Fail("C04", "ancestors", "descends-but-error", "%s descends from %s but ancestors -> %d %s", short(x.Hash), short(y.Hash), code, string(body))
				}
				path := map[string]*MHeader{}
				for c := x; c != y; c = c.Parent {
					path[c.HashStr()] = c
				}
				path[y.HashStr()] = y
				seen := map[string]bool{}
				for _, j := range js {
					c := path[j.Hash]
					if c == nil || !hdrMatches(j, c) {
						r.Fail("C04", "ancestors", "off-path", "ancestors(%s,%s) returned %s which is not on the path between them", short(x.Hash), short(y.Hash), j.Hash[:8])
					}
					if seen[j.Hash] {
						r.Fail("C04", "ancestors", "duplicate", "ancestors returned %s twice", j.Hash[:8])
					}
					seen[j.Hash] = true
				}
				for k, c := range path {
					if c != x && c != y && !seen[k] {
						r.Fail("C04", "ancestors", "path-gap", "ancestors(%s,%s) misses %s (height %d) of the path", short(x.Hash), short(y.Hash), short(c.Hash), c.Height)
					}
				}
			} else {
				if code == 200 {
					r.Fail("C04", "ancestors", "unrelated-but-200", "%s (%s h%d) does not descend from %s (%s h%d) but ancestors -> 200 %s", short(x.Hash), x.Label, x.Height, short(y.Hash), y.Label, y.Height, string(body))
				}
				if code >= 500 {
					r.Fail("C04", "ancestors", "unrelated-5xx", "ancestors of unrelated headers -> %d %s", code, string(body))
				}
			}
		case 5: // common ancestor
			k := t.Range(1, 4, "ca-n")
			var set []*MHeader
			amb := false
			for i := 0; i < k; i++ {
				x := a.anyHeader("ca-x")
				set = append(set, x)
				amb = amb || a.linkAmbiguous(x)
			}
			if amb {
				break
			}
			minH := int32(1 << 30)
			for _, x := range set {
				if x.Height < minH {
					minH = x.Height
				}
			}
			var exp *MHeader
			for _, c := range m.Headers {
				if c.Height >= minH {
					continue
				}
				all := true
				for _, x := range set {
					if !a.modelAncestor(c, x) {
						all = false
					}
				}
				if all && (exp == nil || c.Height > exp.Height) {
					exp = c
				}
			}
			if exp == nil {
				break // not defined by the statement (e.g. a set containing genesis, or unrelated orphans): C16's business
			}
			var hs []string
			for _, x := range set {
				hs = append(hs, x.HashStr())
			}
			body, _ := json.Marshal(hs)
			code, resp := w.HTTP("POST", "/api/v1/chain/header/commonAncestor", body, nil)
			var j hdrJSON
			if code != 200 || parseOneJSON(resp, &j) != nil {
				r.Fail("C04", "common-ancestor", "status", "commonAncestor(%v) -> %d %s, model %s", hs, code, string(resp), short(exp.Hash))
			}
			if !hdrMatches(j, exp) {
				r.Fail("C04", "common-ancestor", "wrong", "commonAncestor(%v) = %s, model says %s (height %d)", hs, j.Hash, exp.HashStr(), exp.Height)
			}
		case 6: // tip/longest + state
			x := a.anyHeader("st")
			a.h.checkHeaderViews(x, "c04")
		}
	}
}

// ----------------------------------------------------------------------------------------------
// C08 merkle-root listing

type pageJSON struct {
	Content []struct {
		MerkleRoot  string `json:"merkleRoot"`
		BlockHeight int64  `json:"blockHeight"`
	} `json:"content"`
	Page struct {
		TotalElements    int64  `json:"totalElements"`
		Size             int    `json:"size"`
		LastEvaluatedKey string `json:"lastEvaluatedKey"`
	} `json:"page"`
}

func (a *apiSim) c08() {
	r, w, m := a.r, a.w, a.h.m
	t := r.T
	lc0 := m.LongestChain()
	// error paths first
	if t.Chance(1, 3, "c08-err") {
		u := a.h.uniqueHash("unknown-key").String()
		code, body := w.HTTP("GET", "/api/v1/chain/merkleroot?batchSize=3&lastEvaluatedKey="+u, nil, nil)
		if code != 404 {
			r.Fail("C08", "unknown-key", "status", "unknown lastEvaluatedKey -> %d %s, expected a not-found error", code, string(body))
		}
		for _, x := range m.Headers {
			if x.Label != LLongest {
				code, body := w.HTTP("GET", "/api/v1/chain/merkleroot?batchSize=3&lastEvaluatedKey="+x.Raw.Merkle.String(), nil, nil)
				if code != 409 {
					r.Fail("C08", "non-longest-key", x.Label, "key of %s block %s -> %d %s, expected a conflict error", x.Label, short(x.Hash), code, string(body))
				}
				break
			}
		}
	}
	batch := t.Range(1, len(lc0)+2, "batch")
	if a.long {
		// page sizes around the documented default, around the chain length, and well beyond both; 0 stands for
		// "no batchSize parameter" (the default page)
		sizes := []int{0, 1999, 2000, 2001, 2002, len(lc0) - 1, len(lc0), len(lc0) + 1, 2500, 5000, 700 + batch%1500}
		batch = sizes[t.Draw(len(sizes), "long-batch")]
	}
	interleave := t.Chance(1, 3, "interleave")
	before := w.TableDigest("headers")
	stable := map[string]int64{} // blocks longest for the whole walk
	for _, x := range lc0 {
		stable[x.Raw.Merkle.String()] = int64(x.Height)
	}
	key := ""
	lastH := int64(-1)
	visited := map[string]bool{}
	pages := 0
	ended := false
	staleSibling := false
	for _, x := range m.Headers {
		if x.Label == LStale {
			staleSibling = true
		}
	}
	for !ended {
		if limit := len(m.Headers) + 8; pages > limit { // the longest chain can never be longer than the store
			r.Fail("C08", "walk-does-not-end", fmt.Sprintf("batch=%d", batch), "walk with batchSize=%d did not end after %d pages over a chain of %d", batch, pages, len(lc0))
		}
		q := fmt.Sprintf("/api/v1/chain/merkleroot?batchSize=%d", batch)
		if batch == 0 {
			q = "/api/v1/chain/merkleroot?"
		}
		if key != "" {
			q += "&lastEvaluatedKey=" + url.QueryEscape(key)
		}
		code, body := w.HTTP("GET", q, nil, nil)
		var pg pageJSON
		if code != 200 {
			// legitimate only if the key's block left the longest chain during an interleaved walk
			if interleave && code == 409 {
				if x := a.byMerkle(key); x != nil && x.Label != LLongest {
					r.Probe("walk-conflict-after-reorg")
					return
				}
			}
			r.Fail("C08", "page-status", fmt.Sprintf("code=%d", code), "GET %s -> %d %s", q, code, string(body))
		}
		if err := parseOneJSON(body, &pg); err != nil {
			r.Fail("C08", "page-json", "parse", "GET %s -> %s (%v)", q, string(body), err)
		}
		pages++
		if batch > 0 && len(pg.Content) > batch { // (no parameter: whatever page size the service chooses)
			r.Fail("C08", "page-size", "exceeds-batch", "page has %d entries, batchSize=%d", len(pg.Content), batch)
		}
		lcNow := m.LongestChain()
		for _, e := range pg.Content {
			if e.BlockHeight <= lastH {
				r.Fail("C08", "order", "not-ascending", "entry at height %d follows height %d (batch %d, page %d)", e.BlockHeight, lastH, batch, pages)
			}
			if e.BlockHeight >= int64(len(lcNow)) || lcNow[e.BlockHeight].Raw.Merkle.String() != e.MerkleRoot {
				lbl := "unknown"
				if x := a.byMerkle(e.MerkleRoot); x != nil {
					lbl = x.Label
				}
				r.Fail("C08", "non-longest-entry", lbl, "page lists (%s.., h=%d) which is not the longest-chain block at that height (it is %s)", e.MerkleRoot[:8], e.BlockHeight, lbl)
			}
			if visited[e.MerkleRoot] {
				r.Fail("C08", "duplicate", "visited-twice", "block %s.. listed twice", e.MerkleRoot[:8])
			}
			visited[e.MerkleRoot] = true
			lastH = e.BlockHeight
		}
		key = pg.Page.LastEvaluatedKey
		if key == "" {
			ended = true
			break
		}
		if len(pg.Content) == 0 || key != pg.Content[len(pg.Content)-1].MerkleRoot {
			r.Fail("C08", "key", "not-last-entry", "lastEvaluatedKey %q is not the page's last entry", key)
		}
		if interleave && t.Chance(1, 2, "ingest-between-pages") {
			a.h.SkipChecks = false
			raw := a.h.NewHeader()
			a.h.Submit(raw, "between-pages")
			r.Probe("ingest-between-pages")
			// blocks that left the longest chain are no longer constrained
			now := map[string]bool{}
			for _, x := range m.LongestChain() {
				now[x.Raw.Merkle.String()] = true
			}
			for k := range stable {
				if !now[k] {
					delete(stable, k)
				}
			}
		}
	}
	for k, hgt := range stable {
		if !visited[k] {
			r.Fail("C08", "missing", fmt.Sprintf("interleave=%v", interleave), "walk (batch %d, %d pages) never listed longest-chain block %s.. at height %d", batch, pages, k[:8], hgt)
		}
	}
	if !interleave {
		if after := w.TableDigest("headers"); after != before {
			r.Fail("C04", "read-modified-store", "c08", "listing requests changed the headers table")
		}
	}
	r.Logf("walk batch=%d pages=%d interleave=%v chain=%d", batch, pages, interleave, len(lc0))
	// two clients: a page one caller holds stays what it was while another caller asks for a different page (the
	// answer of the service belongs to whoever received it)
	if lcN := m.LongestChain(); len(lcN) >= 3 {
		b1, b2 := t.Range(1, len(lcN), "two-clients-batch-1"), t.Range(1, len(lcN), "two-clients-batch-2")
		k2 := lcN[t.Draw(len(lcN)-1, "two-clients-key")].Raw.Merkle.String()
		pa, errA := w.Svc.Merkleroots.GetMerkleRoots(b1, "")
		if errA == nil && pa != nil {
			snap, _ := json.Marshal(pa)
			_, _ = w.Svc.Merkleroots.GetMerkleRoots(b2, k2)
			_, _ = w.Svc.Merkleroots.GetMerkleRoots(b1+1, k2)
			if again, _ := json.Marshal(pa); string(again) != string(snap) {
				r.Fail("C08", "page-changed-in-callers-hands", "second-request", "the page returned for (batchSize %d, from the start) read %s when it was returned and reads %s after another caller asked for (batchSize %d, key %s..)", b1, truncate(string(snap), 160), truncate(string(again), 160), b2, k2[:8])
			}
			r.Probe("two-clients-pages")
		}
	}
	if pages >= 3 && staleSibling {
		a.nt["walk>=3pages+stale-sibling"]++
	}
}

func (a *apiSim) byMerkle(root string) *MHeader {
	for _, x := range a.h.m.Headers {
		if x.Raw.Merkle.String() == root {
			return x
		}
	}
	return nil
}

// ----------------------------------------------------------------------------------------------
// C13 block locator and getheaders answers (service interface)

// checkLocator checks the shape the statement gives for a block locator.
func checkLocator(r *Run, m *Model, loc []Hash32, where string) {
	lc := m.LongestChain()
	if len(loc) == 0 {
		r.Fail("C13", "locator", where+"|empty", "empty block locator")
	}
	if loc[0] != m.Best().Hash {
		r.Fail("C13", "locator", where+"|first-not-tip", "locator starts at %s, tip is %s", short(loc[0]), short(m.Best().Hash))
	}
	if loc[len(loc)-1] != m.Genesis.Hash {
		r.Fail("C13", "locator", where+"|last-not-genesis", "locator ends at %s, not at genesis (len %d, tip height %d)", short(loc[len(loc)-1]), len(loc), len(lc)-1)
	}
	var hs []int
	for _, l := range loc {
		x := m.ByHash[l]
		if x == nil || x.Label != LLongest {
			lbl := "unknown"
			if x != nil {
				lbl = x.Label
			}
			r.Fail("C13", "locator", where+"|non-longest-entry", "locator entry %s is %s", short(l), lbl)
		}
		hs = append(hs, int(x.Height))
	}
	// gaps: 1,1,...,1 then 2,4,8,...; the last gap may be cut short by genesis
	doubling := false
	prevGap := 0
	for i := 1; i < len(hs); i++ {
		gap := hs[i-1] - hs[i]
		if gap <= 0 {
			r.Fail("C13", "locator", where+"|not-descending", "locator heights %v", hs)
		}
		last := i == len(hs)-1
		switch {
		case !doubling && gap == 1:
		case !doubling && gap == 2 && i > 1:
			doubling = true
		case doubling && gap == 2*prevGap:
		case last && hs[i] == 0 && ((doubling && gap <= 2*prevGap) || (!doubling && gap <= 2)):
		default:
			r.Fail("C13", "locator", where+"|step-pattern", "locator heights %v: step %d after step %d", hs, gap, prevGap)
		}
		prevGap = gap
	}
}

func (a *apiSim) c13() {
	r, w, m := a.r, a.w, a.h.m
	t := r.T
	// locator
	var loc domains.BlockLocator
	if pan, pv, st := guard(func() { loc = w.Svc.Headers.LatestHeaderLocator() }); pan {
		r.Fail("C13", "panic", "LatestHeaderLocator@"+panicSite(st), "LatestHeaderLocator panicked: %v", pv)
	}
	var lh []Hash32
	for _, l := range loc {
		lh = append(lh, Hash32(*l))
	}
	checkLocator(r, m, lh, "service")
	// getheaders
	lc := m.LongestChain()
	nq := t.Range(1, 4, "gh-n")
	// inputs that are listed as known findings (empty locator, stop = genesis) end a run at once; they are
	// generated in one run out of eight so that exploration continues behind them
	allowKnown := t.Chance(1, 8, "allow-known-inputs")
	for q := 0; q < nq; q++ {
		var locator []Hash32
		n := t.Pick([]int{5 * boolInt(allowKnown), 30, 30, 20, 15}, "loc-len")
		staleAbove := false
		for i := 0; i < n; i++ {
			switch t.Pick([]int{50, 25, 10, 15}, "loc-kind") {
			case 0:
				locator = append(locator, lc[t.Draw(len(lc), "loc-lc")].Hash)
			case 1:
				locator = append(locator, a.anyHeader("loc-any").Hash)
			case 2:
				locator = append(locator, a.h.uniqueHash("loc-unknown"))
			case 3: // tip region
				k := len(lc) - 1 - t.Draw(min(len(lc), 12), "loc-near-tip")
				locator = append(locator, lc[k].Hash)
			}
		}
		// a long locator (the protocol allows 500 entries): sizes around the hundreds, known and unknown hashes mixed
		if t.Chance(1, 12, "long-locator") {
			locator = nil
			nl := []int{99, 100, 101, 150, 199, 200, 201, 300, 499, 500}[t.Draw(10, "long-locator-len")]
			for i := 0; i < nl; i++ {
				if t.Chance(1, 2, "ll-known") {
					locator = append(locator, lc[t.Draw(len(lc), "ll-lc")].Hash)
				} else {
					locator = append(locator, a.h.uniqueHash("loc-unknown"))
				}
			}
			n = nl
			r.Probe("long-locator")
		}
		if n > 0 && n < 99 && t.Chance(1, 4, "model-locator") {
			locator = nil
			for _, x := range m.Locator() {
				locator = append(locator, x.Hash)
			}
		}
		var stop Hash32
		stopKind := []string{"zero", "longest", "any", "unknown", "genesis"}[t.Pick([]int{35, 35, 15, 10, 5 * boolInt(allowKnown)}, "stop-kind")]
		switch stopKind {
		case "longest":
			stop = lc[t.Draw(len(lc), "stop-lc")].Hash
		case "any":
			stop = a.anyHeader("stop-any").Hash
		case "unknown":
			stop = a.h.uniqueHash("stop-unknown")
		case "genesis":
			stop = m.Genesis.Hash
		}
		exp := m.GetHeaders(locator, stop, 2000)
		start := 0
		for _, l := range locator {
			if x := m.ByHash[l]; x != nil {
				if x.Label == LLongest && int(x.Height) > start {
					start = int(x.Height)
				}
			}
		}
		for _, l := range locator {
			if x := m.ByHash[l]; x != nil && x.Label != LLongest && int(x.Height) > start {
				staleAbove = true
			}
		}
		var chLoc []*chainhash.Hash
		for i := range locator {
			hh := chainhash.Hash(locator[i])
			chLoc = append(chLoc, &hh)
		}
		chStop := chainhash.Hash(stop)
		var got []wire.BlockHeader
		// storage can fail one of the reads behind an answer (SQLITE_BUSY while the sync engine writes): the answer is
		// then the right one or none at all - never headers beyond the stop hash or from elsewhere (runs on the wrapper
		// driver; not for the two inputs whose handling is a recorded finding)
		faultAt, seenQ, firedQ := -1, 0, false
		if a.viaSim && len(locator) > 0 && stop != m.Genesis.Hash && t.Chance(1, 4, "getheaders-read-fault") {
			faultAt = t.Draw(3, "getheaders-fault-at")
			sqlFail = func(op, q string) error {
				if op != "query" {
					return nil
				}
				k := seenQ
				seenQ++
				if k == faultAt {
					firedQ = true
					r.Fault("getheaders-read-error")
					return errors.New("simnet: database is locked (SQLITE_BUSY)")
				}
				return nil
			}
		}
		if pan, pv, st := guard(func() { got = w.Svc.Headers.LocateHeaders(chLoc, &chStop) }); pan {
			sqlFail = nil
			r.Fail("C13", "panic", "LocateHeaders@"+panicSite(st), "LocateHeaders panicked: %v", pv)
		}
		sqlFail = nil
		if firedQ {
			ok := len(got) == 0
			if !ok && len(got) == len(exp) {
				ok = true
				for i := range exp {
					if bh := got[i].BlockHash(); bh.String() != exp[i].HashStr() {
						ok = false
					}
				}
			}
			r.Logf("getheaders with a failing read (query %d of the request) -> %d headers (model %d)", faultAt, len(got), len(exp))
			if !ok {
				r.Fail("C13", "getheaders", fmt.Sprintf("after-read-error|query=%d|locator=%s,stop=%s", faultAt, locShape(m, locator), stopShape(m, stop, start)),
					"the storage read %d behind a getheaders answer failed; the service answered with %d headers, neither nothing nor the %d headers the store implies (start height %d, tip %d)", faultAt, len(got), len(exp), start, len(lc)-1)
			}
			continue
		}
		var got2 []*wire.BlockHeader
		var err2 error
		if pan, pv, st := guard(func() { got2, err2 = w.Svc.Headers.LocateHeadersGetHeaders(chLoc, &chStop) }); pan {
			r.Fail("C13", "panic", "LocateHeadersGetHeaders@"+panicSite(st), "LocateHeadersGetHeaders panicked: %v", pv)
		}
		shape := fmt.Sprintf("locator=%s,stop=%s", locShape(m, locator), stopShape(m, stop, start))
		// the two inputs with a defined special meaning key the signature on their own
		if len(locator) == 0 {
			shape = "locator=empty"
		} else if stop == m.Genesis.Hash {
			shape = "stop=genesis"
		}
		r.Logf("getheaders %s -> %d headers (model %d)", shape, len(got), len(exp))
		cmp := func(name string, hashes []string) {
			if len(hashes) != len(exp) {
				r.Fail("C13", "getheaders", shape+"|count", "%s returned %d headers, model %d (start height %d, tip %d)", name, len(hashes), len(exp), start, len(lc)-1)
			}
			for i := range exp {
				if hashes[i] != exp[i].HashStr() {
					r.Fail("C13", "getheaders", shape+"|content", "%s header %d is %s, model says %s (height %d)", name, i, hashes[i][:8], short(exp[i].Hash), exp[i].Height)
				}
			}
		}
		var g1, g2 []string
		for i := range got {
			bh := got[i].BlockHash()
			g1 = append(g1, bh.String())
		}
		for i := range got2 {
			bh := got2[i].BlockHash()
			g2 = append(g2, bh.String())
		}
		cmp("LocateHeaders", g1)
		if err2 == nil || len(exp) > 0 {
			cmp("LocateHeadersGetHeaders", g2)
		}
		if len(got) > 2000 {
			r.Fail("C13", "getheaders", "cap", "answer has %d headers", len(got))
		}
		if staleAbove {
			a.nt["stale-above-start"]++
		}
		if len(exp) == 2000 {
			a.nt["cap-limited"]++
			r.Probe("cap-limited-answer")
		}
	}
}

func locShape(m *Model, loc []Hash32) string {
	if len(loc) == 0 {
		return "empty"
	}
	kinds := map[string]bool{}
	for _, l := range loc {
		x := m.ByHash[l]
		switch {
		case x == nil:
			kinds["unknown"] = true
		default:
			kinds[x.Label] = true
		}
	}
	var ks []string
	for k := range kinds {
		ks = append(ks, k)
	}
	sort.Strings(ks)
	return strings.Join(ks, "+")
}

func stopShape(m *Model, stop Hash32, start int) string {
	if stop.IsZero() {
		return "zero"
	}
	x := m.ByHash[stop]
	switch {
	case x == nil:
		return "unknown"
	case x.Height == 0:
		return "genesis"
	case x.Label != LLongest:
		return x.Label
	case int(x.Height) <= start:
		return "at-or-below-start"
	}
	return "ahead"
}

// ----------------------------------------------------------------------------------------------
// C16 malformed requests

func (a *apiSim) c16() {
	r, w, m := a.r, a.w, a.h.m
	t := r.T
	// (an empty path segment does not reach a registered route - gin answers its plain-text 404 - so it is not generated)
	badHashes := []string{"zz", "0", strings.Repeat("f", 64), strings.Repeat("0", 63), strings.Repeat("ab", 40), "null", "%00", "..", strings.Repeat("A", 300), "-1", "0x00",
		// bytes that are not UTF-8 (they reach the handler percent-decoded)
		"\xff", "\xc3\x28", "\xfe\xfe", "ab\x80cd", "\xed\xa0\x80"}
	badNums := []string{"", "abc", "-1", "-2147483649", "2147483648", "99999999999999999999", "1.5", "1e3", " 1", "0x10", "+5", "null"}
	someHash := func() string {
		switch t.Pick([]int{40, 40, 20}, "h-kind") {
		case 0:
			return a.anyHeader("h-any").HashStr()
		case 1:
			return badHashes[t.Draw(len(badHashes), "h-bad")]
		}
		return a.h.uniqueHash("h-unknown").String()
	}
	someNum := func() string {
		if t.Chance(1, 2, "n-ok") {
			return fmt.Sprint(t.Range(-2, 12, "n"))
		}
		return badNums[t.Draw(len(badNums), "n-bad")]
	}
	bodies := func(valid string) []byte {
		switch t.Pick([]int{20, 10, 10, 10, 10, 10, 10, 10, 10}, "body-kind") {
		case 0:
			return []byte(valid)
		case 1:
			return []byte("")
		case 2:
			return []byte("[]")
		case 3:
			return []byte("{}")
		case 4:
			return []byte("not json")
		case 5:
			if len(valid) > 2 {
				return []byte(valid[:len(valid)/2])
			}
			return []byte("[")
		case 6:
			return []byte(`[1,2,3]`)
		case 7:
			return []byte(`{"url":12,"requiredAuth":"x"}`)
		}
		return []byte(`null`)
	}
	nq := t.Range(2, 8, "c16-n")
	for q := 0; q < nq; q++ {
		var method, path, route string
		var body []byte
		switch t.Pick([]int{10, 10, 14, 12, 14, 12, 10, 8, 5, 5, 6}, "route") {
		case 0:
			route, method, path = "GET /chain/header/:hash", "GET", "/api/v1/chain/header/"+url.PathEscape(someHash())
		case 1:
			route, method, path = "GET /chain/header/state/:hash", "GET", "/api/v1/chain/header/state/"+url.PathEscape(someHash())
		case 2:
			route, method = "GET /chain/header/byHeight", "GET"
			qs := url.Values{}
			if t.Chance(3, 4, "has-height") {
				qs.Set("height", someNum())
			}
			if t.Chance(1, 2, "has-count") {
				qs.Set("count", someNum())
			}
			path = "/api/v1/chain/header/byHeight?" + qs.Encode()
		case 3:
			route, method = "GET /chain/header/:hash/:ancestorHash/ancestor", "GET"
			path = "/api/v1/chain/header/" + url.PathEscape(someHash()) + "/" + url.PathEscape(someHash()) + "/ancestor"
		case 4:
			route, method, path = "POST /chain/header/commonAncestor", "POST", "/api/v1/chain/header/commonAncestor"
			var hs []string
			for i := t.Range(0, 3, "ca-len"); i > 0; i-- {
				hs = append(hs, someHash())
			}
			if t.Chance(1, 4, "with-genesis") {
				hs = append(hs, m.Genesis.HashStr())
			}
			if hs == nil {
				hs = []string{}
			}
			v, _ := json.Marshal(hs)
			body = bodies(string(v))
		case 5:
			route, method, path = "POST /chain/merkleroot/verify", "POST", "/api/v1/chain/merkleroot/verify"
			valid := fmt.Sprintf(`[{"merkleRoot":"%s","blockHeight":%s}]`, someHash(), []string{"1", "-1", "\"1\"", "1.5", "99999999999", "null"}[t.Draw(6, "bh")])
			body = bodies(valid)
		case 6:
			route, method = "GET /chain/merkleroot", "GET"
			qs := url.Values{}
			if t.Chance(2, 3, "has-bs") {
				qs.Set("batchSize", someNum())
			}
			if t.Chance(1, 2, "has-key") {
				if t.Chance(1, 2, "key-is-a-stored-root") {
					qs.Set("lastEvaluatedKey", a.anyHeader("key-root").Raw.Merkle.String()) // of a longest, stale or orphan header
				} else {
					qs.Set("lastEvaluatedKey", someHash())
				}
			}
			path = "/api/v1/chain/merkleroot?" + qs.Encode()
		case 7:
			route, method, path = "POST /webhook", "POST", "/api/v1/webhook"
			// url values that net/url refuses to parse are client mistakes like any other (wave 9: a validation that
			// dereferences the result of a failed url.Parse)
			whURL := []string{"http://example.invalid/hook", "http://exa mple.invalid/hook", "http://[::1/hook", "http://example.invalid/%zz",
				"http://example.invalid:port/x", "://", "http://example.invalid/\u0000", "%", "http://user:pa ss@example.invalid/"}[t.Draw(9, "wh-body-url")]
			body = bodies(`{"url":"` + whURL + `","requiredAuth":{"type":"BEARER","token":"t","header":"Authorization"}}`)
		case 8:
			route, method = []string{"GET /webhook", "DELETE /webhook"}[t.Draw(2, "wh-m")], ""
			method = strings.Fields(route)[0]
			path = "/api/v1/webhook"
			if t.Chance(2, 3, "has-url") {
				path += "?url=" + url.QueryEscape([]string{"", "x", "http://example.invalid/none", strings.Repeat("u", 400)}[t.Draw(4, "wh-url")])
			}
		case 9:
			route, method, path = "DELETE /access/:token", "DELETE", "/api/v1/access/"+url.PathEscape(someHash())
		case 10:
			rs := [][2]string{{"GET", "/api/v1/access"}, {"POST", "/api/v1/access"}, {"GET", "/api/v1/network/peer"}, {"GET", "/api/v1/network/peer/count"}, {"GET", "/api/v1/chain/tip"}, {"GET", "/api/v1/chain/tip/longest"}}
			k := rs[t.Draw(len(rs), "plain-route")]
			method, path = k[0], k[1]
			route = method + " " + strings.TrimPrefix(path, "/api/v1")
			if method == "POST" {
				body = bodies("{}")
			}
		}
		panBefore := w.Sniffer.panics.Load()
		var code int
		var resp []byte
		if pan, pv, st := guard(func() { code, resp = w.HTTP(method, path, body, nil) }); pan {
			r.Fail("C16", "crash", route+"@"+panicSite(st), "%s %s (body %q) crashed the engine: %v", method, path, string(body), pv)
		}
		a.nt["malformed"]++
		r.Logf("req %s %s body=%q -> %d", method, path, truncate(string(body), 80), code)
		desc := fmt.Sprintf("%s %s body=%q", method, path, truncate(string(body), 120))
		if w.Sniffer.panics.Load() != panBefore {
			// a panic that gin recovered: the client's answer is what counts (a panic in a deferred function
			// AFTER the handler has answered leaves the answer intact - with metrics enabled the request tracker
			// does that for paths that are not UTF-8; noted in DESIGN 11.3, not a violation of the statement)
			var vv any
			if code >= 500 || code == 0 || parseOneJSON(resp, &vv) != nil {
				last, _ := w.Sniffer.last.Load().(string)
				r.Fail("C16", "handler-panic", route, "%s -> %d: handler panicked (recovered by gin): %s", desc, code, truncate(last, 300))
			}
			r.Probe("panic-after-the-answer")
		}
		if code >= 500 {
			r.Fail("C16", "5xx", route, "%s -> %d %s", desc, code, truncate(string(resp), 200))
		}
		var v any
		if err := parseOneJSON(resp, &v); err != nil {
			r.Fail("C16", "not-one-json", fmt.Sprintf("%s|%d", route, code), "%s -> %d with body %q: %v", desc, code, truncate(string(resp), 200), err)
		}
		if code >= 400 {
			obj, ok := v.(map[string]any)
			_, hasCode := obj["code"]
			_, hasMsg := obj["message"]
			if !ok || !hasCode || !hasMsg {
				r.Fail("C16", "unstructured-4xx", fmt.Sprintf("%s|%d", route, code), "%s -> %d %s: no code/message", desc, code, truncate(string(resp), 200))
			}
		}
	}
}

func truncate(s string, n int) string {
	if len(s) > n {
		return s[:n] + "..."
	}
	return s
}

// clampH keeps a generated request height inside the int32 the request format has.
func clampH(x int64) int64 {
	if x > math.MaxInt32 {
		return math.MaxInt32
	}
	return x
}
