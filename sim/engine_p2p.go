package verifsim

import (
	"bytes"
	"errors"
	"fmt"
	"net"
	"sort"
	"strings"
	"sync"
	"testing/synctest"
	"time"

	"github.com/bitcoin-sv/block-headers-service/config"
	"github.com/bitcoin-sv/block-headers-service/internal/chaincfg"
	"github.com/bitcoin-sv/block-headers-service/internal/chaincfg/chainhash"
	"github.com/bitcoin-sv/block-headers-service/internal/wire"
	"github.com/bitcoin-sv/block-headers-service/transports/p2p"
	"github.com/bitcoin-sv/block-headers-service/transports/p2p/p2putil"
	peerpkg "github.com/bitcoin-sv/block-headers-service/transports/p2p/peer"
)

// p2psim: the whole default P2P stack (p2p.NewServer: address manager, connection manager, sync manager, real
// peer.Peer goroutines) in a synctest bubble against scripted nodes on a simulated network. The simulator owns
// everything between the service and the world and proceeds one external event at a time, run to quiescence.
// Serves C06, C07, C13 (wire part), C18 (admission part).

func init() {
	register(&Engine{Name: "p2psim", Props: []string{"C06", "C07", "C13W", "C18"}, Exec: p2psimExec, Bubble: true})
}

type p2pServer interface {
	Start() error
	Shutdown() error
	ConnectedCount() int32
}

type p2pRig struct {
	r       *Run
	t       *Tape
	w       *World
	lis     *simListener
	srv     p2pServer
	tree    *Model
	nodes   []*simNode
	conns   []*nodeConn
	connSeq int
	honest  *simNode
	ctr     uint32
	start   time.Time
	ckpts   []chaincfg.Checkpoint
	capAll  int
	// bookkeeping for oracles
	banUntil    map[string]time.Time // model of bans (host -> expiry on the simulated clock)
	forbidden   map[Hash32]bool
	offered     map[Hash32]bool // every header some node put on the wire
	lastGH      map[int]int     // per conn: number of getheaders already checked
	healing     bool
	fresh       bool
	disableCk   bool
	nGetHdrs    int
	nReplies    int
	nFaults     int
	instSeq     int64
	inCoStep    bool
	viaSQL      bool // the world sits on the wrapper SQL driver
	parkMu      sync.Mutex
	parkArmed   bool          // the next read statement parks
	parkedQuery chan struct{} // the parked read (nil: none)
	// outbound class: the service dials scripted nodes it learnt from the (simulated) DNS seed and from addr messages;
	// every Dial of the connection manager parks here until the scheduler answers it
	outbound          bool
	dialMu            sync.Mutex
	dials             []*dialTask
	dialSeq           int
	dialsClosed       bool
	addrTold          []addrTold      // addresses sent in addr messages (known to the service once delivered)
	knownAddr         map[string]bool // hosts whose address the service has been told (DNS seed, addr messages)
	refusals          map[string]int  // refused dials per host
	everLongest       map[string]bool // every header that was on the longest chain at some quiescent point
	startTip          int             // height of the stored tip when the service was started (checkpoints at or below it count as passed)
	replayingDeferred bool
	nodeHungUp        bool // a scripted node closed its connection while reacting (settle waits once more)
	announced         int
	reqAfterContra    map[int]int
	focus             string
	preload           map[Hash32]bool
	admitted          map[string][]*nodeConn
	ckLast            int
	prevLongest       map[string]bool
	prevTipHeight     int
	experimental      bool
}

func (g *p2pRig) now() time.Time { return time.Now() }

func (g *p2pRig) uniqueHash(tag string) Hash32 {
	g.ctr++
	return seedHash(g.r.Seed, g.ctr, tag)
}

// mine creates a header on top of parent in the block tree (not in the store).
func (g *p2pRig) mine(parent *MHeader, ts time.Time, bits uint32) *MHeader {
	raw := RawHeader{Version: 0x20000000, Prev: parent.Hash, Merkle: g.uniqueHash("merkle"), Time: uint32(ts.Unix()), Bits: bits, Nonce: g.ctr}
	_, mh := g.tree.Submit(raw)
	if mh == nil {
		Infra("block tree refused a mined header")
	}
	return mh
}

func p2psimExec(r *Run) {
	withInstantRand(r.Seed, func() { p2psimRun(r) })
}

func p2psimRun(r *Run) {
	t := r.T
	g := &p2pRig{r: r, t: t, banUntil: map[string]time.Time{}, forbidden: map[Hash32]bool{}, offered: map[Hash32]bool{}, lastGH: map[int]int{}, reqAfterContra: map[int]int{}, everLongest: map[string]bool{}}
	g.start = time.Now()
	g.tree = NewModel(genesisRaw())
	focus := r.Prop
	if f := r.Opt["focus"]; f != "" {
		focus = f
	}
	g.focus = focus
	g.preload = map[Hash32]bool{}
	g.admitted = map[string][]*nodeConn{}

	// ---------------- world configuration (swarm)
	L := t.Range(3, 40, "chain-len")
	if r.Tier == "thorough" && t.Chance(1, 4, "longer") {
		L = t.Range(40, 120, "chain-len-long")
	}
	g.fresh = !t.Chance(1, 10, "stale-timestamps")
	if r.Opt["force_stale"] == "1" {
		g.fresh = false
	}
	base := g.start
	if !g.fresh {
		base = g.start.Add(-72 * time.Hour)
	}
	// honest chain: L blocks, ten minutes apart, ending shortly before "now"
	tip := g.tree.Genesis
	var honestChain []*MHeader
	for i := 1; i <= L; i++ {
		tip = g.mine(tip, base.Add(-time.Duration(L-i)*10*time.Minute-time.Minute), bitsNormal[0])
		honestChain = append(honestChain, tip)
	}
	nNodes := t.Range(1, 4, "n-nodes")
	forkedScenario := false
	var forkTips []*MHeader
	if t.Chance(1, 3, "with-forks") && L >= 4 {
		forkedScenario = true
		nf := t.Range(1, 2, "n-forks")
		for f := 0; f < nf; f++ {
			at := t.Range(0, L-2, "fork-at") // fork parent: index into genesis+honestChain
			parent := g.tree.Genesis
			if at > 0 {
				parent = honestChain[at-1]
			}
			maxLen := L - at - 1 // strictly less work than the honest chain
			if maxLen < 1 {
				continue
			}
			ft := parent
			for i, n := 0, t.Range(1, maxLen, "fork-len"); i < n; i++ {
				ft = g.mine(ft, base.Add(-time.Duration(L-at-i)*10*time.Minute), bitsNormal[0])
			}
			forkTips = append(forkTips, ft)
		}
		if len(forkTips) == 0 {
			forkedScenario = false
		}
	}
	// checkpoints consistent with the honest chain
	g.disableCk = t.Chance(1, 8, "disable-checkpoints")
	if r.Opt["nockdisable"] == "1" {
		g.disableCk = false
	}
	// lists with two or more checkpoints lead (whenever one reply spans two of them) to a recorded known finding of
	// C07; the C07 class therefore uses a single checkpoint in most runs so that exploration continues behind it
	ckW := []int{40, 40, 20}
	if focus == "C07" {
		ckW = []int{70, 20, 10}
	}
	ckShape := []string{"one", "several", "last-at-tip"}[t.Pick(ckW, "ck-shape")]
	var ckHeights []int
	switch ckShape {
	case "one":
		ckHeights = []int{t.Range(1, L, "ck-h")}
	case "several":
		for h := t.Range(1, 3, "ck-first"); h <= L; h += t.Range(1, 9, "ck-gap") {
			ckHeights = append(ckHeights, h)
		}
	case "last-at-tip":
		if L > 2 && t.Chance(1, 2, "ck-two") {
			ckHeights = append(ckHeights, t.Range(1, L-1, "ck-h"))
		}
		ckHeights = append(ckHeights, L)
	}
	for _, h := range ckHeights {
		hh := chainhash.Hash(honestChain[h-1].Hash)
		g.ckpts = append(g.ckpts, chaincfg.Checkpoint{Height: int32(h), Hash: &hh})
	}
	oldCk := config.Checkpoints
	config.Checkpoints = g.ckpts
	defer func() { config.Checkpoints = oldCk }()

	// nodes
	g.capAll = 2000
	initial := []string{"genesis", "prefix", "stale-fork"}[t.Pick([]int{50, 30, 20 * boolInt(forkedScenario)}, "initial-store")]
	if !forkedScenario {
		g.capAll = t.Range(1, 7, "reply-cap")
		if t.Chance(1, 4, "big-cap") {
			g.capAll = 2000
		}
	}
	for i := 0; i < nNodes; i++ {
		n := &simNode{idx: i, ip: net.IPv4(byte(20+i), byte(10+i), 1, byte(1+i)), cap: g.capAll, tree: g.tree, silentAt: -1, closeAt: -1, forbidAt: -1,
			nonce: uint64(1000 + 100*i), announce: []string{"inv", "headers"}[t.Draw(2, "announce-mode")]}
		n.skew = []time.Duration{0, 5 * time.Second, -5 * time.Second, 20 * time.Minute, -20 * time.Minute}[t.Pick([]int{60, 10, 10, 10, 10}, "skew")]
		// an inv announcement may list the block's most recent ancestors before it (oldest first, as a node
		// announcing several blocks at once does) and a transaction entry after it
		n.invTrail = t.Pick([]int{55, 25, 20}, "inv-trail")
		n.invTx = t.Chance(1, 4, "inv-tx")
		// an inv-announcing node may be one that does not know BIP 130 at all and keeps announcing by inv whatever
		// the service asked for
		n.ignoresSendHeaders = n.announce == "inv" && t.Chance(1, 2, "ignores-sendheaders")
		if i == 0 {
			n.role, n.best = "honest", honestChain[L-1]
			g.honest = n
		} else {
			roles := []string{"honest", "lagging", "forked", "staller", "disconnector"}
			w := []int{20, 30, 25 * boolInt(forkedScenario), 15, 10}
			n.role = roles[t.Pick(w, "role")]
			switch n.role {
			case "honest":
				n.best = honestChain[L-1]
			case "lagging":
				n.best = honestChain[t.Range(0, L-1, "lag-to")]
			case "forked":
				n.best = forkTips[t.Draw(len(forkTips), "fork-of")]
			case "staller":
				n.best = honestChain[L-1]
				n.silentAt = t.Range(2, 8, "silent-at")
			case "disconnector":
				n.best = honestChain[L-1]
				n.closeAt = t.Range(2, 8, "close-at")
			}
		}
		g.nodes = append(g.nodes, n)
	}
	if focus == "C07" || (focus == "C18" && t.Chance(2, 3, "with-ban")) {
		g.setupMisbehaviour(honestChain)
	}
	roles := []string{}
	for _, n := range g.nodes {
		roles = append(roles, fmt.Sprintf("n%d=%s@h%d/%s+%d", n.idx, n.role, n.best.Height, n.announce, n.invTrail))
	}
	r.Cfg["nodes"] = roles
	r.Cfg["chain"] = L
	r.Cfg["forks"] = len(forkTips)
	r.Cfg["checkpoints"] = fmt.Sprint(ckHeights)
	r.Cfg["disable_checkpoints"] = g.disableCk
	r.Cfg["cap"] = g.capAll
	r.Cfg["initial"] = initial
	r.Cfg["fresh_timestamps"] = g.fresh

	// ---------------- the service
	w := NewWorld(r)
	g.w = w
	defer w.Destroy()
	w.Cfg.P2P.DisableCheckpoints = g.disableCk
	w.Cfg.P2P.BanDuration = []time.Duration{24 * time.Hour, time.Hour, 10 * time.Minute}[t.Pick([]int{50, 25, 25}, "ban-duration")]
	peers := make(map[*peerpkg.Peer]*peerpkg.SyncState)
	w.Peers = peers
	for _, fh := range g.forbidden2list() {
		ch := chainhash.Hash(fh)
		chaincfg.MainNetParams.HeadersToIgnore = append(chaincfg.MainNetParams.HeadersToIgnore, &ch)
	}
	// a quarter of the runs (not in the race class) sit on the wrapper SQL driver: storage can then be SLOW while the
	// network goes on (a read of the sync manager parks until the scheduler lets it through)
	g.viaSQL = r.Opt["race"] != "1" && t.Chance(1, 4, "p2p-sql-wrapper")
	r.Cfg["sql_wrapper"] = g.viaSQL
	if g.viaSQL {
		sqlQueryHook = func(string) {
			g.parkMu.Lock()
			if !g.parkArmed {
				g.parkMu.Unlock()
				return
			}
			g.parkArmed = false
			ch := make(chan struct{})
			g.parkedQuery = ch
			g.parkMu.Unlock()
			<-ch // durably blocked: the goroutine that asked (the sync manager) is stuck in its storage call
		}
		defer func() { sqlQueryHook = nil; g.releaseQuery() }()
		w.OpenSim()
	} else {
		w.Open()
	}
	// initial store
	switch initial {
	case "prefix":
		for _, h := range honestChain[:t.Range(1, L, "prefix-len")] {
			if _, err := w.Svc.Chains.Add(toSource(h.Raw)); err != nil {
				Infra("pre-load: %v", err)
			}
			g.preload[h.Hash] = true
		}
	case "stale-fork":
		ft := forkTips[t.Draw(len(forkTips), "preload-fork")]
		for _, h := range chainOf(ft)[1:] {
			if _, err := w.Svc.Chains.Add(toSource(h.Raw)); err != nil {
				Infra("pre-load: %v", err)
			}
			g.preload[h.Hash] = true
		}
	}
	for _, row := range w.Snapshot() {
		if row.State == LLongest && int(row.Height) > g.startTip {
			g.startTip = int(row.Height)
		}
	}
	g.lis = newSimListener("0.0.0.0:8333")
	p2putil.SimListeners = func() ([]net.Listener, error) { return []net.Listener{g.lis}, nil }
	oldLookup, oldDial := config.Lookup, config.Dial
	// outbound class (a third of the runs, not in the race class and not for the flood): the DNS seed names some of the
	// scripted nodes and the service dials them
	g.outbound = r.Opt["race"] != "1" && r.Opt["outbound"] != "0" && (r.Opt["outbound"] == "1" || t.Chance(1, 3, "outbound-class"))
	r.Cfg["outbound"] = g.outbound
	var seedIPs []net.IP
	g.knownAddr, g.refusals = map[string]bool{}, map[string]int{}
	if g.outbound {
		for _, n := range g.nodes {
			if t.Chance(2, 3, "in-dns-seed") {
				seedIPs = append(seedIPs, n.ip)
				g.knownAddr[n.ip.String()] = true
			}
		}
	}
	config.Lookup = func(string) ([]net.IP, error) {
		if len(seedIPs) == 0 {
			return nil, errors.New("simnet: no DNS")
		}
		// the answer of the seed takes its time: the connection manager's first round of requests (started at the
		// same moment as the lookup) finds no address and comes back after its retry interval
		time.Sleep(1500 * time.Millisecond)
		return append([]net.IP{}, seedIPs...), nil
	}
	config.Dial = func(network, addr string, d time.Duration) (net.Conn, error) {
		if g.outbound {
			return g.parkDial(addr)
		}
		time.Sleep(2 * time.Second) // a dial that fails in zero simulated time makes the connection manager spin
		return nil, errors.New("simnet: unreachable")
	}
	defer func() { config.Lookup, config.Dial = oldLookup, oldDial }()
	srv, err := p2p.NewServer(w.Svc, peers, w.Cfg.P2P, &w.Log)
	if err != nil {
		Infra("p2p.NewServer: %v", err)
	}
	g.srv = srv
	if err := srv.Start(); err != nil {
		Infra("p2p start: %v", err)
	}
	defer g.shutdown()
	synctest.Wait()

	// ---------------- thorough tier, admission part: the total limit (125 peers) - 27 further hosts open five
	// connections each, one at a time; then a few leave and the freed capacity must be usable again
	if focus == "C18" && r.Tier == "thorough" && t.Chance(1, 8, "flood") {
		r.Probe("flood")
		var extra []*simNode
		for hst := 0; hst < 27; hst++ {
			n := &simNode{idx: len(g.nodes), ip: net.IPv4(byte(60+hst), 7, 7, byte(1+hst)), cap: g.capAll, tree: g.tree, silentAt: -1, closeAt: -1, forbidAt: -1,
				nonce: uint64(50000 + 100*hst), announce: "inv", role: "honest", best: g.honest.best}
			g.nodes = append(g.nodes, n)
			extra = append(extra, n)
		}
		for k := 0; k < 5; k++ {
			for _, n := range extra {
				r.Step++
				c := g.connect(n)
				g.deliver(c, 0)
				g.afterDeliver(c)
				g.settle()
			}
		}
		for i := 0; i < 6; i++ {
			n := extra[t.Draw(len(extra), "flood-leave")]
			for _, c := range n.conns {
				if !c.closed && !c.dead {
					r.Step++
					_ = c.nodeEnd.Close()
					c.closed = true
					g.settle()
					break
				}
			}
		}
		for i := 0; i < 8; i++ {
			r.Step++
			c := g.connect(extra[t.Draw(len(extra), "flood-again")])
			g.deliver(c, 0)
			g.afterDeliver(c)
			g.settle()
		}
	}
	// ---------------- fault phase: one external event per step
	nSteps := t.Range(10, 80, "fault-steps")
	if r.Tier == "thorough" {
		nSteps = t.Range(10, 200, "fault-steps")
	}
	for s := 0; s < nSteps; s++ {
		if !t.Chance(39, 40, "more") && s > 5 {
			break
		}
		g.step()
	}
	// ---------------- healing phase and the convergence oracle
	g.heal()
	r.SimTime = time.Since(g.start)
	r.Shape = r.Trace
	switch focus {
	case "C07":
		r.Nontrivial = r.Stats["probe.misbehaviour-after-accepted-header"] > 0
	case "C13W":
		r.Nontrivial = g.nGetHdrs >= 2 && r.Stats["probe.node-getheaders-answered"] > 0
	case "C18":
		r.Nontrivial = r.Stats["probe.per-host-limit-hit"] > 0 || r.Stats["probe.ban-expired-readmitted"] > 0
	default:
		r.Nontrivial = g.nReplies >= 2 || g.nFaults > 0 || g.announced > 0
	}
}

func (g *p2pRig) forbidden2list() []Hash32 {
	var out []Hash32
	for h := range g.forbidden {
		out = append(out, h)
	}
	sort.Slice(out, func(i, j int) bool { return bytes.Compare(out[i][:], out[j][:]) < 0 })
	return out
}

func (g *p2pRig) shutdown() {
	g.closeDials()
	for _, c := range g.conns {
		_ = c.nodeEnd.Close()
	}
	done := make(chan struct{})
	go func() { _ = g.srv.Shutdown(); close(done) }()
	synctest.Wait()
	select {
	case <-done:
	default:
		// a shutdown that does not finish leaves parked goroutines behind; the bubble ends anyway
		g.r.Probe("shutdown-did-not-finish")
	}
	p2putil.SimListeners = nil
}

// connect opens a connection from node n to the service (inbound for the service); the node speaks first.
// uniqueInstant moves the simulated clock to an instant whose sub-second part no earlier connect or delivery had.
// Every timer the service starts in reaction (negotiation, ping and stall tickers of a peer) then has its own phase
// and never fires at the same instant as those of other peers or as the sync manager's ticker, which began at a whole
// second: the order in which goroutines woken at ONE instant run is not the simulator's to decide.
func (g *p2pRig) uniqueInstant() {
	if g.inCoStep {
		return // a co-scheduled step happens at one instant, on purpose
	}
	g.instSeq++
	target := time.Duration((g.instSeq*7919)%1000000) * time.Microsecond
	frac := time.Duration(time.Now().UnixNano() % int64(time.Second))
	if d := (target - frac + time.Second) % time.Second; d > 0 {
		time.Sleep(d)
		synctest.Wait()
	}
}

type addrTold struct {
	c    *nodeConn
	host string
}

type dialAnswer struct {
	conn net.Conn
	err  error
}

type dialTask struct {
	addr string
	seq  int
	ch   chan dialAnswer
}

// parkDial is the service's Dial in the outbound class: it blocks (durably, for the simulator) until answered.
func (g *p2pRig) parkDial(addr string) (net.Conn, error) {
	g.dialMu.Lock()
	if g.dialsClosed {
		g.dialMu.Unlock()
		return nil, errors.New("simnet: network is down")
	}
	g.dialSeq++
	tk := &dialTask{addr: addr, seq: g.dialSeq, ch: make(chan dialAnswer, 1)}
	g.dials = append(g.dials, tk)
	g.dialMu.Unlock()
	a := <-tk.ch
	return a.conn, a.err
}

// parkedDials lists the dials waiting for an answer in a repeatable order (by address; the connection requests behind
// two dials of one address are interchangeable).
func (g *p2pRig) parkedDials() []*dialTask {
	g.dialMu.Lock()
	out := append([]*dialTask{}, g.dials...)
	g.dialMu.Unlock()
	sort.SliceStable(out, func(i, j int) bool { return out[i].addr < out[j].addr })
	return out
}

// answerDial connects the parked dial to the scripted node that owns the address, or refuses it.
func (g *p2pRig) answerDial(tk *dialTask, connect bool) {
	g.dialMu.Lock()
	for i, x := range g.dials {
		if x == tk {
			g.dials = append(g.dials[:i], g.dials[i+1:]...)
			break
		}
	}
	g.dialMu.Unlock()
	var node *simNode
	host, _, _ := net.SplitHostPort(tk.addr)
	for _, n := range g.nodes {
		if n.ip.String() == host {
			node = n
		}
	}
	if node != nil && node.gone {
		node = nil // the node has left the network
	}
	if !connect || node == nil {
		g.r.Logf("dial %s -> refused", tk.addr)
		g.r.Fault("dial-refused")
		g.refusals[host]++
		tk.ch <- dialAnswer{nil, errors.New("simnet: connection refused")}
		return
	}
	g.uniqueInstant()
	g.connSeq++
	nodeEnd, svcEnd := simPipe(node.addr(8333), &net.TCPAddr{IP: net.IPv4(10, 0, 0, 1), Port: 40000 + g.connSeq})
	nodeEnd.SetGated(true)
	c := &nodeConn{id: g.connSeq, node: node, nodeEnd: nodeEnd, svcEnd: svcEnd, inbound: false, openedAt: g.r.Step}
	node.conns = append(node.conns, c)
	g.conns = append(g.conns, c)
	g.r.Logf("dial %s -> connected as %s", tk.addr, c)
	g.r.Probe("outbound-connection")
	tk.ch <- dialAnswer{svcEnd, nil}
}

// closeDials refuses what is parked and every later dial (end of the run).
func (g *p2pRig) closeDials() {
	g.dialMu.Lock()
	g.dialsClosed = true
	ds := g.dials
	g.dials = nil
	g.dialMu.Unlock()
	for _, tk := range ds {
		tk.ch <- dialAnswer{nil, errors.New("simnet: network is down")}
	}
}

// releaseQuery lets a parked storage read go on.
func (g *p2pRig) releaseQuery() {
	g.parkMu.Lock()
	ch := g.parkedQuery
	g.parkedQuery, g.parkArmed = nil, false
	g.parkMu.Unlock()
	if ch != nil {
		close(ch)
	}
}

func (g *p2pRig) queryParked() bool {
	g.parkMu.Lock()
	defer g.parkMu.Unlock()
	return g.parkedQuery != nil
}

// deliver hands k (<=0: all) pending bytes of the node's end to the service, at an instant of its own.
func (g *p2pRig) deliver(c *nodeConn, k int) int {
	g.uniqueInstant()
	return c.nodeEnd.Deliver(k)
}

func (g *p2pRig) connect(n *simNode) *nodeConn {
	g.connSeq++
	g.uniqueInstant()
	port := 40000 + g.connSeq
	nodeEnd, svcEnd := simPipe(n.addr(port), &net.TCPAddr{IP: net.IPv4(10, 0, 0, 1), Port: 8333})
	nodeEnd.SetGated(true)
	c := &nodeConn{id: g.connSeq, node: n, nodeEnd: nodeEnd, svcEnd: svcEnd, inbound: true, openedAt: g.r.Step}
	n.conns = append(n.conns, c)
	g.conns = append(g.conns, c)
	c.sendVersion(g.now())
	g.lis.Offer(svcEnd)
	return c
}

func (g *p2pRig) liveConns(pred func(*nodeConn) bool) []*nodeConn {
	var out []*nodeConn
	for _, c := range g.conns {
		if !c.closed && !c.dead && (pred == nil || pred(c)) {
			out = append(out, c)
		}
	}
	return out
}

// settle waits for quiescence, lets every node consume and answer what the service wrote, and checks invariants.
func (g *p2pRig) settle() {
	// a scripted node that hangs up while reacting wakes the service again; the step only ends once the service
	// has come to rest after the last such reaction (otherwise the next event would race with the clean-up)
	for round := 0; round < 16; round++ {
		synctest.Wait()
		g.nodeHungUp = false
		g.pump()
		if !g.nodeHungUp {
			break
		}
	}
	g.admissionVerdicts()
	g.invariants()
	g.prevLongest = map[string]bool{}
	g.prevTipHeight = 0
	for hs, row := range g.w.Snapshot() {
		if row.State == LLongest {
			g.prevLongest[hs] = true
			g.everLongest[hs] = true
			if int(row.Height) > g.prevTipHeight {
				g.prevTipHeight = int(row.Height)
			}
		}
	}
}

// pump lets every scripted node react to what the service has written to it.
func (g *p2pRig) pump() {
	for _, c := range g.conns {
		if c.closed || c.dead {
			continue
		}
		if !c.silent && len(c.deferred) > 0 {
			d := c.deferred
			c.deferred = nil
			g.replayingDeferred = true
			for _, m := range d {
				c.msgsIn--
				g.nodeReceive(c, m)
			}
			g.replayingDeferred = false
		}
		// whether the last messages the service queued still made it onto the wire before it closed the connection
		// is a race inside the service; what arrives in the step in which the close is observed is dropped unseen
		closedNow := c.nodeEnd.PeerClosed()
		msgs := c.parse()
		if closedNow {
			c.dead = true
			g.r.Logf("%s closed by the service", c)
			continue
		}
		for _, m := range msgs {
			g.nodeReceive(c, m)
		}
	}
}

// nodeReceive is the scripted node's reaction to one message of the service.
func (g *p2pRig) nodeReceive(c *nodeConn, m wire.Message) {
	r := g.r
	n := c.node
	c.msgsIn++
	c.recv = append(c.recv, recvMsg{r.Step, m})
	if hm, ok := m.(*wire.MsgHeaders); ok && !g.replayingDeferred {
		c.hdrReplies = append(c.hdrReplies, hm) // (what the service answered, whether or not the node is stalling)
	}
	// keep-alive and handshake messages race with disconnects at one simulated instant (a ping may or may not be
	// written before the close); they carry no meaning for the properties and stay out of the event log
	switch m.(type) {
	case *wire.MsgGetHeaders, *wire.MsgPing, *wire.MsgPong, *wire.MsgVersion, *wire.MsgVerAck:
	default:
		r.Logf("%s <- %s", c, m.Command())
	}
	if n.closeAt >= 0 && c.msgsIn >= n.closeAt && !g.healing && n != g.honest {
		r.Logf("%s closes (disconnector) after %d messages", c, c.msgsIn)
		_ = c.nodeEnd.Close()
		c.closed = true
		g.nodeHungUp = true
		g.nFaults++
		r.Fault("node-disconnect-mid-sync")
		return
	}
	if n.silentAt >= 0 && c.msgsIn >= n.silentAt && !g.healing && n != g.honest && !c.silent {
		c.silent = true
		g.nFaults++
		r.Fault("node-stall")
		r.Logf("%s goes silent (staller) after %d messages", c, c.msgsIn)
	}
	if c.silent {
		// a stalled node does not lose what it was sent; it gets to it when it resumes
		if _, isPing := m.(*wire.MsgPing); !isPing {
			c.deferred = append(c.deferred, m)
		}
		// what the service emitted is judged against the store of the moment it was emitted, not of the moment the
		// node gets round to answering
		if gh, ok := m.(*wire.MsgGetHeaders); ok {
			g.checkEmittedGetHeaders(c, gh)
		}
		return
	}
	switch msg := m.(type) {
	case *wire.MsgVersion:
		c.gotVer = true
		if !c.sentVer {
			c.sendVersion(g.now()) // the service dialled: the node answers with its own version first
		}
		c.send(wire.NewMsgVerAck())
	case *wire.MsgSendHeaders:
		// BIP 130: from now on this peer wants new blocks announced by headers
		c.wantsHeaders = true
		r.Probe("sendheaders-received")
	case *wire.MsgVerAck:
		c.gotVerack = true
		if c.gotVer && c.handshakeDoneStep == 0 {
			c.handshakeDoneStep = r.Step
		}
	case *wire.MsgPing:
		c.send(wire.NewMsgPong(msg.Nonce))
	case *wire.MsgGetAddr:
		// the node tells what it knows: the other scripted nodes and an address nobody listens on
		am := wire.NewMsgAddr()
		for _, x := range g.nodes {
			if x != n {
				_ = am.AddAddress(wire.NewNetAddressTimestamp(time.Unix(g.now().Unix(), 0), wire.SFNodeNetwork, x.ip, 8333))
				g.addrTold = append(g.addrTold, addrTold{c, x.ip.String()})
			}
		}
		_ = am.AddAddress(wire.NewNetAddressTimestamp(time.Unix(g.now().Unix(), 0), wire.SFNodeNetwork, net.IPv4(99, byte(90+n.idx), 1, 1), 8333))
		// (and one that every node knows: the service learns it from several sources)
		_ = am.AddAddress(wire.NewNetAddressTimestamp(time.Unix(g.now().Unix(), 0), wire.SFNodeNetwork, net.IPv4(98, 76, 5, 4), 8333))
		c.send(am)
		r.Probe("addr-sent")
	case *wire.MsgGetHeaders:
		c.getHdrs = append(c.getHdrs, msg)
		g.nGetHdrs++
		if !g.replayingDeferred {
			g.checkEmittedGetHeaders(c, msg)
		}
		reply := n.headersReply(msg)
		hm := wire.NewMsgHeaders()
		// with a single checkpoint the service is waiting for it for as long as its header is not stored, whatever
		// stop hash it sends (with several, the recorded pointer-lag finding blurs which one it is waiting for)
		var pendingCk *chaincfg.Checkpoint
		var storeNow map[string]Row
		if len(g.ckpts) == 1 && !g.disableCk && g.startTip < int(g.ckpts[0].Height) {
			storeNow = g.w.Snapshot()
			if _, have := storeNow[g.ckpts[0].Hash.String()]; !have {
				pendingCk = &g.ckpts[0]
			}
		}
		for i, h := range reply {
			// (a forbidden header is rejected before any checkpoint comparison, also at a checkpoint's height)
			if pendingCk != nil && !g.forbidden[h.Hash] && h.Height == pendingCk.Height && h.Hash != Hash32(*pendingCk.Hash) && c.misbehaved == "" {
				c.misbehaved = "contra"
				if _, stored := storeNow[h.HashStr()]; stored {
					// the contradicting header is in the store already (stored before it was compared, when it
					// was first delivered): a re-delivery - recorded finding
					c.misbehaved = "contra|already-stored"
					r.Probe("stored-contradiction-delivered-again")
				}
				r.Probe("checkpoint-contradicted")
				if Hash32(msg.HashStop) != Hash32(*pendingCk.Hash) {
					r.Probe("checkpoint-contradicted-unasked")
				}
				if i > 0 {
					r.Probe("misbehaviour-after-accepted-header")
				}
			}
			_ = hm.AddBlockHeader(toWireHeader(h))
			g.offered[h.Hash] = true
			if g.forbidden[h.Hash] && c.misbehaved == "" {
				c.misbehaved = "forbidden"
				r.Probe("forbidden-header-sent")
				if i > 0 {
					r.Probe("misbehaviour-after-accepted-header")
				}
			}
			// a header at the height of the checkpoint the service asked up to (stop hash) that differs from it
			for k := range g.ckpts {
				ck := &g.ckpts[k]
				if Hash32(*ck.Hash) == Hash32(msg.HashStop) && h.Height == ck.Height && h.Hash != Hash32(*ck.Hash) && c.misbehaved == "" {
					c.misbehaved = "contra"
					r.Probe("checkpoint-contradicted")
					if i > 0 {
						r.Probe("misbehaviour-after-accepted-header")
					}
				}
			}
		}
		// what the service is known to have on this node's chain: the locator entry the reply started from, then
		// whatever the reply carries
		{
			onChain := map[Hash32]*MHeader{}
			for _, h := range chainOf(n.best) {
				onChain[h.Hash] = h
			}
			for _, l := range msg.BlockLocatorHashes {
				if h, ok := onChain[Hash32(*l)]; ok {
					c.known = h
					break
				}
			}
			if len(reply) > 0 && c.misbehaved == "" {
				c.known = reply[len(reply)-1]
			}
		}
		g.nReplies++
		if len(reply) >= 1 && len(reply) == n.cap {
			r.Probe("reply-cap-hit")
		}
		r.Logf("%s getheaders(loc=%d,stop=%s) -> %d headers", c, len(msg.BlockLocatorHashes), short(Hash32(msg.HashStop)), len(hm.Headers))
		c.send(hm)
	}
}

// step performs one scheduler event of the fault phase.
func (g *p2pRig) step() {
	r, t := g.r, g.t
	r.Step++
	type ev struct {
		kind string
		c    *nodeConn
		n    *simNode
		w    int
	}
	var evs []ev
	for _, c := range g.liveConns(nil) {
		if c.nodeEnd.PendingOut() > 0 && !c.partitioned {
			evs = append(evs, ev{"deliver", c, nil, 30})
		}
	}
	for _, n := range g.nodes {
		live := 0
		for _, c := range n.conns {
			if !c.closed && !c.dead {
				live++
			}
		}
		if live == 0 {
			evs = append(evs, ev{"connect", nil, n, 25})
		} else if live < 7 && g.focus == "C18" {
			evs = append(evs, ev{"connect", nil, n, 12})
		} else if live < 3 && n.role == "forbidden" {
			evs = append(evs, ev{"connect", nil, n, 8})
		}
		if live > 0 {
			evs = append(evs, ev{"mine", nil, n, 4})
		}
	}
	for _, c := range g.liveConns(func(c *nodeConn) bool { return c.node != g.honest && c.handshaken() }) {
		evs = append(evs, ev{"close", c, nil, 1}, ev{"reset", c, nil, 1})
	}
	// ... and in the middle of the handshake (the service has the node's version, the verack is still to come)
	for _, c := range g.liveConns(func(c *nodeConn) bool { return c.node != g.honest && !c.handshaken() && c.versionDelivered }) {
		evs = append(evs, ev{"close", c, nil, 2})
	}
	if pd := g.parkedDials(); len(pd) > 0 {
		evs = append(evs, ev{"dial", nil, nil, 20})
	}
	evs = append(evs, ev{"clock", nil, nil, 8}, ev{"outage", nil, nil, 1 + 2*boolInt(len(g.banUntil) > 0)})
	for _, c := range g.liveConns(func(c *nodeConn) bool { return c.node != g.honest }) {
		evs = append(evs, ev{"partition", c, nil, 1})
	}
	for _, c := range g.liveConns(func(c *nodeConn) bool { return c.handshaken() }) {
		if g.focus == "C13W" {
			evs = append(evs, ev{"node-getheaders", c, nil, 6})
		}
	}
	if r.Opt["race"] == "1" {
		evs = append(evs, ev{"co-step", nil, nil, 40})
	}
	// a misbehaving node may push its forbidden header unasked (an unsolicited headers message), on any of its
	// connections and at any time: the way to provoke a second ban of a host whose first ban is still running or
	// has run out unnoticed. Only once the service has started a sync (it then accepts headers messages).
	if g.nGetHdrs > 0 {
		fc := g.liveConns(func(c *nodeConn) bool {
			return c.node.role == "forbidden" && c.handshaken() && c.node.forbidden != nil && !c.partitioned && c.admittedLive
		})
		for _, c := range fc {
			evs = append(evs, ev{"offend", c, nil, 5})
		}
		// directed: the offence arrives while the sync manager is stuck in a storage read on behalf of another peer,
		// and the offender is gone before the manager gets to its message
		if g.viaSQL && len(fc) > 0 && fc[0].nodeEnd.PendingOut() == 0 {
			if hs := g.liveConns(func(c *nodeConn) bool {
				return c.node == g.honest && c.handshaken() && !c.partitioned && c.nodeEnd.PendingOut() == 0
			}); len(hs) > 0 {
				evs = append(evs, ev{"offend-while-busy", fc[0], nil, 8})
			}
		}
		// directed sequence (faults placed where they create in-flight state): two offences of one host from two of
		// its connections with time passing in between, then a new connection of that host
		var sameNode []*nodeConn // two connections of ONE offending node
		for _, a := range fc {
			for _, b := range fc {
				if a != b && a.node == b.node && len(sameNode) == 0 {
					sameNode = []*nodeConn{a, b}
				}
			}
		}
		if len(sameNode) == 2 && g.w.Cfg.P2P.BanDuration <= time.Hour && g.focus != "C06" {
			evs = append(evs, ev{"double-ban", sameNode[0], nil, 10})
		}
	}
	ws := make([]int, len(evs))
	for i, e := range evs {
		ws[i] = e.w
	}
	e := evs[t.Pick(ws, "event")]
	switch e.kind {
	case "co-step":
		g.coStep()
		return
	case "deliver":
		k := 0
		if t.Chance(1, 4, "fragment") {
			k = 1 + t.Draw(e.c.nodeEnd.PendingOut(), "fragment-bytes")
			r.Fault("fragmented-delivery")
		}
		n := g.deliver(e.c, k)
		r.Logf("deliver %s %d bytes", e.c, n)
		g.afterDeliver(e.c)
	case "dial":
		pd := g.parkedDials()
		tk := pd[t.Draw(len(pd), "dial-idx")]
		g.answerDial(tk, t.Chance(3, 4, "dial-connects"))
	case "connect":
		c := g.connect(e.n)
		r.Logf("connect %s from %s", c, e.n.ip)
	case "mine":
		g.mineAndAnnounce(e.n)
	case "close":
		r.Logf("%s closed by the node", e.c)
		_ = e.c.nodeEnd.Close()
		e.c.closed = true
		g.nFaults++
		r.Fault("node-close")
	case "reset":
		r.Logf("%s reset", e.c)
		e.c.nodeEnd.Reset()
		e.c.closed = true
		g.nFaults++
		r.Fault("connection-reset")
	case "clock":
		d := []time.Duration{time.Second, 5 * time.Second, 16 * time.Second, 31 * time.Second, 2 * time.Minute, 4 * time.Minute, 6 * time.Minute}[t.Pick([]int{20, 20, 15, 15, 10, 10, 10}, "clock-d")]
		r.Logf("clock +%v", d)
		g.advance(d)
		return
	case "offend":
		hm := wire.NewMsgHeaders()
		_ = hm.AddBlockHeader(toWireHeader(e.c.node.forbidden))
		g.offered[e.c.node.forbidden.Hash] = true
		if e.c.misbehaved == "" || e.c.misDelivered { // (an offence still on its way stays the one that counts)
			e.c.misbehaved, e.c.misDelivered, e.c.misEnd = "forbidden", false, 0
		}
		idle := e.c.nodeEnd.PendingOut() == 0
		e.c.send(hm)
		r.Logf("%s pushes its forbidden header unasked", e.c)
		r.Probe("forbidden-header-pushed")
		// ... and may hang up at once: the header and the end of the stream arrive together; the sender is gone
		// by the time the header is looked at, the ban of its host is due all the same
		if idle && t.Chance(1, 2, "offend-and-hang-up") {
			g.deliver(e.c, 0)
			g.afterDeliver(e.c)
			_ = e.c.nodeEnd.Close()
			e.c.closed = true
			r.Logf("%s hangs up right behind it", e.c)
			r.Probe("offender-hangs-up-at-once")
			// ... and comes back a moment later: its host is banned by now, whether or not the sender was still
			// there when its header was looked at
			if t.Chance(1, 2, "offender-returns") {
				g.settle()
				g.advance(3 * time.Second)
				c2 := g.connect(e.c.node)
				c2.banProbe = true
				r.Logf("connect %s from %s (the offender returns)", c2, e.c.node.ip)
				g.deliver(c2, 0)
				g.afterDeliver(c2)
			}
		}
	case "offend-while-busy":
		hs := g.liveConns(func(c *nodeConn) bool {
			return c.node == g.honest && c.handshaken() && !c.partitioned && c.nodeEnd.PendingOut() == 0
		})
		hc, oc := hs[0], e.c
		// (1) the next storage read parks; an inv of the honest node makes the sync manager read
		g.parkMu.Lock()
		g.parkArmed = true
		g.parkMu.Unlock()
		inv := wire.NewMsgInv()
		bh := chainhash.Hash(g.honest.best.Hash)
		_ = inv.AddInvVect(wire.NewInvVect(wire.InvTypeBlock, &bh))
		hc.send(inv)
		g.uniqueInstant()
		hc.nodeEnd.DeliverThrough()
		synctest.Wait()
		if !g.queryParked() {
			g.releaseQuery() // nobody read anything: an ordinary step
			r.Logf("%s announces its tip again (no storage read followed)", hc)
			break
		}
		r.Fault("storage-read-stalls")
		r.Logf("%s announces its tip again; the sync manager is stuck in a storage read", hc)
		// (2) the offence and the end of the stream
		hm := wire.NewMsgHeaders()
		_ = hm.AddBlockHeader(toWireHeader(oc.node.forbidden))
		g.offered[oc.node.forbidden.Hash] = true
		if oc.misbehaved == "" || oc.misDelivered {
			oc.misbehaved, oc.misDelivered, oc.misEnd = "forbidden", false, 0
		}
		oc.send(hm)
		oc.nodeEnd.DeliverThrough()
		g.afterDeliver(oc)
		_ = oc.nodeEnd.Close()
		oc.closed = true
		synctest.Wait()
		r.Logf("%s pushes its forbidden header and hangs up while the manager is busy", oc)
		r.Probe("offence-queued-behind-a-stalled-read")
		// (3) storage answers; the manager gets to the message of a peer that is gone
		g.releaseQuery()
		g.settle()
		// (4) the offender returns: its host is banned
		g.advance(3 * time.Second)
		c2 := g.connect(oc.node)
		c2.banProbe = true
		r.Logf("connect %s from %s (the offender returns)", c2, oc.node.ip)
		g.deliver(c2, 0)
		g.afterDeliver(c2)
	case "double-ban":
		fc := g.liveConns(func(c *nodeConn) bool {
			return c.node == e.c.node && c.handshaken() && !c.partitioned && c.admittedLive
		})
		D := g.w.Cfg.P2P.BanDuration
		offend := func(c *nodeConn) {
			hm := wire.NewMsgHeaders()
			_ = hm.AddBlockHeader(toWireHeader(c.node.forbidden))
			g.offered[c.node.forbidden.Hash] = true
			if c.misbehaved == "" || c.misDelivered {
				c.misbehaved, c.misDelivered, c.misEnd = "forbidden", false, 0
			}
			c.send(hm)
			for k := 0; k < 8 && c.nodeEnd.PendingOut() > 0 && !c.dead; k++ {
				g.deliver(c, 0)
				g.afterDeliver(c)
				g.settle()
			}
		}
		r.Logf("double-ban: %s offends", fc[0])
		offend(fc[0])
		gap1 := time.Duration(t.Range(1, 14, "dban-gap1")) * D / 10
		r.Logf("double-ban: clock +%v", gap1)
		g.advance(gap1)
		// variant: the second connection of the host does not offend - it simply stays, through the whole ban and
		// beyond (only the offender is disconnected by a ban); afterwards the host returns with one connection after
		// the other: the ones that stayed still count towards its limit
		siblingStays := t.Chance(1, 2, "dban-sibling-stays")
		if c2 := fc[1]; !siblingStays && !c2.dead && !c2.closed {
			r.Logf("double-ban: %s offends", c2)
			offend(c2)
			r.Probe("second-offence-of-a-banned-host")
		}
		gap2 := time.Duration(t.Range(1, 12, "dban-gap2")) * D / 10
		r.Logf("double-ban: clock +%v", gap2)
		g.advance(gap2)
		c3 := g.connect(e.c.node)
		r.Logf("double-ban: connect %s", c3)
		g.deliver(c3, 0)
		g.afterDeliver(c3)
		if siblingStays {
			g.settle()
			if c2 := fc[1]; !c2.dead && !c2.closed {
				r.Probe("sibling-stayed-through-a-ban")
			}
			for k, nx := 0, t.Range(3, 6, "dban-returning-connections"); k < nx; k++ {
				r.Step++
				cx := g.connect(e.c.node)
				r.Logf("double-ban: connect %s (the host returns, connection %d)", cx, k+2)
				for j := 0; j < 4 && (j == 0 || cx.nodeEnd.PendingOut() > 0) && !cx.dead; j++ {
					g.deliver(cx, 0)
					g.afterDeliver(cx)
					g.settle()
				}
			}
		}
	case "partition":
		e.c.partitioned = !e.c.partitioned
		r.Logf("%s partitioned=%v", e.c, e.c.partitioned)
		if e.c.partitioned {
			g.nFaults++
			r.Fault("partition")
		}
	case "outage":
		// a long interval during which nobody is connected (every node closes first), so that no per-peer timer
		// is pending while the clock jumps
		d := []time.Duration{time.Hour, 25 * time.Hour}[t.Pick([]int{1, 1 + 4*boolInt(len(g.banUntil) > 0)}, "outage-d")]
		r.Logf("outage: all nodes disconnect, clock +%v", d)
		for _, c := range g.liveConns(nil) {
			_ = c.nodeEnd.Close()
			c.closed = true
			g.settle() // one disconnect per quiescent step: simultaneous ones race inside the service
		}
		g.settle()
		time.Sleep(d)
		r.Fault("outage")
	case "node-getheaders":
		g.nodeAsksGetHeaders(e.c)
	}
	g.settle()
}

// coStep (race class only): several events are released together, without a quiescent point between them, so
// that the race detector sees them as concurrent: API reads of the peer list, a peer completing its handshake
// or disconnecting, headers deliveries on several connections. The detector's verdict is a happens-before
// property of the events in the step, not of their physical overlap.
func (g *p2pRig) coStep() {
	r, t := g.r, g.t
	r.Logf("co-step")
	r.Probe("co-step")
	g.uniqueInstant()
	g.inCoStep = true
	defer func() { g.inCoStep = false }()
	done := make(chan struct{})
	nreads := t.Range(1, 3, "co-reads")
	go func() {
		defer close(done)
		for i := 0; i < nreads; i++ {
			g.w.HTTP("GET", "/api/v1/network/peer", nil, nil)
			g.w.HTTP("GET", "/api/v1/network/peer/count", nil, nil)
			g.w.HTTP("GET", "/api/v1/chain/tip/longest", nil, nil)
		}
	}()
	// a connection appears (its version message is delivered at once) ...
	if t.Chance(2, 3, "co-connect") {
		n := g.nodes[t.Draw(len(g.nodes), "co-node")]
		c := g.connect(n)
		c.nodeEnd.DeliverThrough()
		g.afterDeliver(c)
	}
	// ... a connected node asks for headers (the service consults its sync state on that peer's goroutine) ...
	if hs := g.liveConns(func(c *nodeConn) bool { return c.handshaken() && !c.partitioned }); len(hs) > 0 && t.Chance(3, 4, "co-getheaders") {
		c := hs[t.Draw(len(hs), "co-getheaders-idx")]
		gh := wire.NewMsgGetHeaders()
		gen, _ := chainhash.NewHashFromStr(g.tree.Genesis.HashStr())
		_ = gh.AddBlockLocatorHash(gen)
		c.send(gh)
	}
	// ... while pending bytes of the others are delivered and one of them goes away
	live := g.liveConns(func(c *nodeConn) bool { return !c.partitioned })
	for _, c := range live {
		if c.nodeEnd.PendingOut() > 0 {
			c.nodeEnd.DeliverThrough()
			g.afterDeliver(c)
		}
	}
	if len(live) > 0 && t.Chance(1, 2, "co-close") {
		c := live[t.Draw(len(live), "co-close-idx")]
		if c.node != g.honest {
			_ = c.nodeEnd.Close()
			c.closed = true
		}
	}
	synctest.Wait()
	<-done
	g.settle()
}

// mineAndAnnounce: a new block appears at node n. Only the honest node n0 creates blocks on the honest chain;
// honest-but-behind nodes advance along that chain (so that a linear scenario stays linear); forked nodes extend
// their own fork only while it keeps strictly less work than the honest chain (the scenario contract).
func (g *p2pRig) mineAndAnnounce(n *simNode) {
	r := g.r
	H := g.honest
	switch {
	case n == H:
		ts := g.now().Add(-time.Second)
		if !g.fresh {
			ts = ts.Add(-72 * time.Hour)
		}
		n.best = g.mine(n.best, ts, bitsNormal[0])
	case n.role == "forked":
		if n.best.Height+1 >= H.best.Height {
			return
		}
		n.best = g.mine(n.best, g.now().Add(-2*time.Second), bitsNormal[0])
	case n.role == "forbidden" || n.role == "contra":
		return
	default:
		// next block of the honest chain above the node's tip
		var next *MHeader
		for h := H.best; h != nil && h != n.best; h = h.Parent {
			next = h
			if h.Parent == nil {
				next = nil
			}
		}
		if next == nil {
			return
		}
		n.best = next
	}
	nb := n.best
	g.announced++
	r.Logf("n%d has new block %s (height %d), announces by %s", n.idx, short(nb.Hash), nb.Height, n.announce)
	r.Probe("block-announced")
	g.announce(n, nb)
}

func (g *p2pRig) announce(n *simNode, nb *MHeader) {
	for _, c := range n.conns {
		if c.closed || c.dead || !c.handshaken() || c.silent {
			continue
		}
		// announcing by headers (BIP 130) is only conformant when the announcement connects to something the peer
		// is known to have: the node sends every header after the last one it knows the service has; when it
		// does not know, or the gap exceeds its reply cap, it falls back to inv
		var seg []*MHeader
		if (n.announce == "headers" || (c.wantsHeaders && !n.ignoresSendHeaders)) && c.known != nil {
			for h := nb; h != nil && h != c.known; h = h.Parent {
				seg = append([]*MHeader{h}, seg...)
				if h.Parent == nil {
					seg = nil // c.known is not an ancestor of the new tip
					break
				}
			}
			if len(seg) > n.cap {
				seg = nil
			}
		}
		if seg == nil {
			inv := wire.NewMsgInv()
			var trail []*MHeader
			for h := nb.Parent; h != nil && h.Parent != nil && len(trail) < n.invTrail; h = h.Parent {
				trail = append([]*MHeader{h}, trail...)
			}
			for _, h := range append(trail, nb) {
				hh := chainhash.Hash(h.Hash)
				_ = inv.AddInvVect(wire.NewInvVect(wire.InvTypeBlock, &hh))
			}
			if len(trail) > 0 {
				g.r.Probe("inv-with-several-blocks")
			}
			if n.invTx {
				th := chainhash.Hash(g.uniqueHash("inv-tx"))
				_ = inv.AddInvVect(wire.NewInvVect(wire.InvTypeTx, &th))
			}
			c.send(inv)
			continue
		}
		hm := wire.NewMsgHeaders()
		for _, h := range seg {
			_ = hm.AddBlockHeader(toWireHeader(h))
			g.offered[h.Hash] = true
		}
		c.known = nb
		g.r.Probe("announced-by-headers")
		c.send(hm)
	}
}

// invariants hold at every quiescent point.
func (g *p2pRig) invariants() {
	r := g.r
	// never more outbound connections than the connection manager's target (its documented default: 8)
	if g.outbound {
		est := 0
		for _, c := range g.conns {
			if !c.inbound && !c.closed && !c.dead {
				est++
			}
		}
		if est > 8 {
			r.Fail("C18", "over-target", "p2psim-outbound", "%d outbound connections are established at a quiescent point, the connection manager's target is 8", est)
		}
		if est == 8 {
			r.Probe("outbound-target-reached")
		}
	}
	rows := g.w.Snapshot()
	if msg := structuralCheck(rows); msg != "" {
		r.Fail("C06", "structure", "p2p", "store structurally invalid during sync: %s", msg)
	}
	for hs, row := range rows {
		var found *MHeader
		for _, x := range g.tree.Headers {
			if x.HashStr() == hs {
				found = x
				break
			}
		}
		if found == nil {
			r.Fail("C06", "unknown-header-stored", "p2p", "the store holds %s which is not in the block tree of this run", hs[:8])
		}
		if g.forbidden[found.Hash] {
			r.Fail("C07", "forbidden-stored", "headers-table", "forbidden header %s was stored (state %s)", hs[:8], row.State)
		}
		if found.Height != 0 && !g.offered[found.Hash] && !g.preloaded(found) {
			r.Fail("C06", "never-offered-header-stored", "p2p", "the store holds %s which no node has put on the wire", hs[:8])
		}
		if row.State != LOrphan && row.Height != int64(found.Height) {
			r.Fail("C03", "height", "p2p", "%s stored with height %d, block tree says %d", hs[:8], row.Height, found.Height)
		}
	}
}

func (g *p2pRig) preloaded(h *MHeader) bool { return g.preload[h.Hash] }

// checkEmittedGetHeaders: every getheaders the service emits is checked against the locator rule (C13) and the
// checkpoint rule (C07) at the quiescent point of its emission.
func (g *p2pRig) checkEmittedGetHeaders(c *nodeConn, gh *wire.MsgGetHeaders) {
	r := g.r
	rows := g.w.Snapshot()
	var tipRow *Row
	for _, row := range rows {
		if row.State == LLongest && (tipRow == nil || row.Height > tipRow.Height) {
			rr := row
			tipRow = &rr
		}
	}
	// The request was built at some moment inside this step; if the longest chain was reorganised within the
	// step, entries that were right when the request was built may be stale now: then nothing is concluded.
	reorg := false
	for hs := range g.prevLongest {
		if row, ok := rows[hs]; !ok || row.State != LLongest {
			reorg = true
		}
	}
	var hs []int
	// the first request on a connection may have been built in an earlier step and queued until the handshake was
	// complete: its entries are held against every longest chain there has been since
	if c.nGhChecked == 0 && !reorg {
		for _, l := range gh.BlockLocatorHashes {
			if row, ok := rows[l.String()]; ok && row.State != LLongest && g.everLongest[l.String()] {
				r.Probe("queued-getheaders-built-before-a-reorg")
				reorg = true
				break
			}
		}
	}
	if reorg {
		r.Probe("getheaders-in-reorg-step-not-checked")
	} else {
		for i, l := range gh.BlockLocatorHashes {
			row, ok := rows[l.String()]
			if !ok || row.State != LLongest {
				st := "unknown"
				if ok {
					st = row.State
				}
				r.Fail("C13", "locator", "wire|non-longest-entry", "getheaders sent to %s: locator entry %d (%s) is %s", c, i, l.String()[:8], st)
			}
			hs = append(hs, int(row.Height))
		}
		if len(hs) == 0 {
			r.Fail("C13", "locator", "wire|empty", "getheaders with an empty locator sent to %s", c)
		}
		for i := 1; i < len(hs); i++ {
			if hs[i] >= hs[i-1] {
				r.Fail("C13", "locator", "wire|not-descending", "getheaders sent to %s: locator heights %v", c, hs)
			}
		}
		// the tip may have moved on within the step after the request was built: the first entry must be a header
		// that was the tip at some moment of the step
		// (the first request on a connection may have been built earlier and queued until the handshake was
		// complete - the peer's output queue only starts after the verack; for it "was the tip once" is all that
		// can be said: every longest-chain header was)
		c.nGhChecked++
		lo := g.prevTipHeight
		if c.nGhChecked == 1 {
			lo = 0
			r.Probe("first-getheaders-of-a-connection")
		}
		if tipRow != nil && (hs[0] > int(tipRow.Height) || hs[0] < lo) {
			r.Fail("C13", "locator", "wire|first-not-tip", "getheaders sent to %s: locator starts at height %d, the tip was at %d before this step and is at %d now", c, hs[0], g.prevTipHeight, tipRow.Height)
		}
		if len(hs) == 1 && hs[0] != 0 {
			// the follow-up request after a checkpoint names only the checkpoint just reached
			r.Probe("single-entry-locator")
			if g.focus == "C13W" {
				r.Fail("C13", "locator", "wire|single-entry-not-ending-at-genesis", "getheaders sent to %s carries the one-entry locator [height %d]; a block locator ends at genesis", c, hs[0])
			}
		} else if g.focus == "C13W" {
			if hs[len(hs)-1] != 0 {
				r.Fail("C13", "locator", "wire|last-not-genesis", "getheaders sent to %s: locator heights %v do not end at genesis", c, hs)
			}
			doubling, prevGap := false, 0
			for i := 1; i < len(hs); i++ {
				gap := hs[i-1] - hs[i]
				last := i == len(hs)-1
				switch {
				case !doubling && gap == 1:
				case !doubling && gap == 2 && i > 1:
					doubling = true
				case doubling && gap == 2*prevGap:
				case last && hs[i] == 0 && ((doubling && gap <= 2*prevGap) || (!doubling && gap <= 2)):
				default:
					r.Fail("C13", "locator", "wire|step-pattern", "getheaders sent to %s: locator heights %v", c, hs)
				}
				prevGap = gap
			}
		}
	}
	// stop hash (C07): a checkpoint of the list while checkpoints remain above the start of the request, the zero
	// hash once the request starts at or above the last checkpoint
	if !g.disableCk && len(hs) > 0 && len(g.ckpts) > 0 {
		stop := Hash32(gh.HashStop)
		lastCk := int(g.ckpts[len(g.ckpts)-1].Height)
		isCk := false
		for i := range g.ckpts {
			if stop == Hash32(*g.ckpts[i].Hash) {
				isCk = true
			}
		}
		// (the experimental engine answers an inv with a request that stops at the announced block: bounded by what
		// the peer itself announced, which is not the statement's concern)
		if !stop.IsZero() && !isCk && !g.experimental {
			r.Fail("C07", "stop-hash", "not-a-checkpoint", "getheaders to %s (locator from height %d) carries stop %s, which is neither zero nor a checkpoint", c, hs[0], short(stop))
		}
		// "after the last one": the header matching the last checkpoint has been received and is on the longest chain
		lastCkOnChain := g.prevLongest[g.ckpts[len(g.ckpts)-1].Hash.String()]
		if hs[0] >= lastCk && lastCkOnChain && !stop.IsZero() && !(g.experimental && !isCk) {
			nck := "checkpoints=1"
			if len(g.ckpts) >= 2 {
				nck = "checkpoints>=2"
			} else {
				// (after a misbehaviour the matching checkpoint header may arrive in a batch that is cut short by a
				// forbidden header, or be stored as a stale sibling of the contradicting one: both leave the pointer
				// behind as well; recorded separately)
				for _, x := range g.conns {
					if x.misDelivered {
						nck = "checkpoints=1|after-misbehaviour"
					}
				}
			}
			r.Fail("C07", "stop-hash", "past-last-checkpoint|"+nck, "the request to %s starts at height %d, at/after the last checkpoint (%d of %d checkpoints), but still carries stop %s", c, hs[0], lastCk, len(g.ckpts), short(stop))
		}
		if isCk {
			r.Probe("stop=checkpoint")
		}
		if stop.IsZero() && hs[0] >= lastCk {
			r.Probe("stop=zero-after-last-checkpoint")
		}
	}
}

// nodeAsksGetHeaders: a scripted node sends a generated getheaders; the answer is checked when it arrives.
func (g *p2pRig) nodeAsksGetHeaders(c *nodeConn) {
	r, t := g.r, g.t
	if c.nodeEnd.PendingOut() > 0 {
		// earlier messages of this node are still on their way (one message per delivery): they go first
		n := g.deliver(c, 0)
		r.Logf("deliver %s %d bytes", c, n)
		g.afterDeliver(c)
		return
	}
	rows := g.w.Snapshot()
	var all []Row
	for _, row := range rows {
		all = append(all, row)
	}
	sort.Slice(all, func(i, j int) bool { return all[i].Hash < all[j].Hash })
	// one request, or - a third of the time - two or three back to back in one segment (a node that pipelines its
	// requests): every one of them has its own answer, in order
	nReq := 1
	if t.Chance(1, 3, "wire-pipelined") {
		nReq = t.Range(2, 3, "wire-pipelined-n")
		r.Probe("pipelined-getheaders")
	}
	var reqs []*wire.MsgGetHeaders
	for q := 0; q < nReq; q++ {
		gh := wire.NewMsgGetHeaders()
		n := t.Range(1, 6, "wire-loc-len")
		for i := 0; i < n; i++ {
			var hh chainhash.Hash
			if t.Chance(1, 5, "wire-loc-unknown") {
				hh = chainhash.Hash(g.uniqueHash("wire-unknown"))
			} else {
				p, _ := chainhash.NewHashFromStr(all[t.Draw(len(all), "wire-loc")].Hash)
				hh = *p
			}
			_ = gh.AddBlockLocatorHash(&hh)
		}
		if t.Chance(1, 2, "wire-stop") {
			p, _ := chainhash.NewHashFromStr(all[t.Draw(len(all), "wire-stop-h")].Hash)
			if p.String() != g.tree.Genesis.HashStr() { // stop = genesis is a recorded known finding of the service part
				gh.HashStop = *p
			}
		}
		reqs = append(reqs, gh)
		r.Logf("%s asks getheaders loc=%d stop=%s", c, n, gh.HashStop.String()[:8])
	}
	before := len(c.hdrReplies)
	if nReq > 1 {
		// the node does not read for a while: the service's writer for this peer is stuck in the pong of a ping,
		// the answers queue up behind it while the service's reader goes through the requests one after the other.
		// (Which of reader and writer is faster is otherwise decided inside the service; with the writer stuck
		// the order is the simulator's.)
		g.uniqueInstant()
		c.svcEnd.BlockWrites(true)
		c.send(wire.NewMsgPing(uint64(0x5eed0000) + uint64(r.Step)))
		c.nodeEnd.DeliverThrough()
		synctest.Wait()
		for _, gh := range reqs {
			c.send(gh)
			c.nodeEnd.DeliverThrough()
			synctest.Wait()
		}
		c.svcEnd.BlockWrites(false)
		r.Fault("peer-not-reading")
	} else {
		c.send(reqs[0])
		g.deliver(c, 0)
	}
	synctest.Wait()
	for _, m := range c.parse() {
		g.nodeReceive(c, m)
	}
	rows2 := g.w.Snapshot()
	if len(rows2) != len(rows) {
		return // ingestion moved the store meanwhile; the answer is not comparable
	}
	// expected answers from the rows
	var lc []Row
	for _, row := range rows {
		if row.State == LLongest {
			lc = append(lc, row)
		}
	}
	sort.Slice(lc, func(i, j int) bool { return lc[i].Height < lc[j].Height })
	if len(c.hdrReplies) == before {
		// the service answers getheaders only when it considers itself current; silence is then legitimate
		r.Probe("node-getheaders-unanswered")
		return
	}
	r.Probe("node-getheaders-answered")
	if len(c.hdrReplies)-before != nReq {
		r.Fail("C13", "getheaders", "wire|answers", "%d getheaders in one segment got %d answers", nReq, len(c.hdrReplies)-before)
	}
	for q, gh := range reqs {
		start := 0
		for _, l := range gh.BlockLocatorHashes {
			if row, ok := rows[l.String()]; ok && row.State == LLongest && int(row.Height) > start {
				start = int(row.Height)
			}
		}
		end := len(lc) - 1
		if gh.HashStop != (chainhash.Hash{}) {
			if row, ok := rows[gh.HashStop.String()]; ok && row.State == LLongest {
				end = int(row.Height)
			}
		}
		var exp []string
		for i := start + 1; i <= end && len(exp) < 2000; i++ {
			exp = append(exp, lc[i].Hash)
		}
		got := c.hdrReplies[before+q]
		det := "wire"
		if nReq > 1 {
			det = "wire|pipelined"
		}
		if len(got.Headers) != len(exp) {
			r.Fail("C13", "getheaders", det+"|count", "service answered getheaders %d of %d of a node with %d headers, the store implies %d (start %d, end %d)", q+1, nReq, len(got.Headers), len(exp), start, end)
		}
		for i, h := range got.Headers {
			bh := h.BlockHash()
			if bh.String() != exp[i] {
				r.Fail("C13", "getheaders", det+"|content", "getheaders %d of %d: header %d of the service's answer is %s, the store implies %s", q+1, nReq, i, bh.String()[:8], exp[i][:8])
			}
		}
	}
}

// advance lets simulated time pass in small chunks while the network keeps working: after every chunk the nodes
// consume what the service wrote (pings are answered) and pending bytes of connections that are not partitioned
// are delivered. Timers of the service therefore meet a live network, and no two log-relevant timer effects
// are left to race at one simulated instant.
func (g *p2pRig) advance(d time.Duration) {
	for left := d; left > 0; {
		step := 10 * time.Second
		if left < step {
			step = left
		}
		time.Sleep(step)
		left -= step
		g.settle()
		// one connection at a time, run to quiescence in between: deliveries to different connections must not
		// race inside one step (which peer completes its handshake first decides the sync peer)
		for _, c := range g.liveConns(func(c *nodeConn) bool { return !c.partitioned }) {
			for k := 0; k < 8 && c.nodeEnd.PendingOut() > 0 && !c.dead; k++ {
				g.deliver(c, 0) // one message
				g.afterDeliver(c)
				g.settle()
			}
		}
	}
}

// heal: faults stop, the honest node stays reachable, the scheduler runs fair for a bounded simulated time;
// then the store must contain the honest node's best chain and report its tip.
func (g *p2pRig) heal() {
	r, t := g.r, g.t
	g.healing = true
	r.Step++
	mode := []string{"others-follow", "others-leave", "others-stay"}[t.Pick([]int{60, 25, 15}, "heal-mode")]
	r.Cfg["heal_mode"] = mode
	// real deployments see connection churn: the honest node shows up on a fresh connection (fresh version
	// message) now and then; in a third of the runs it only ever keeps its old connection
	reconnect := t.Chance(2, 3, "heal-reconnect")
	if r.Opt["force_noreconnect"] == "1" {
		reconnect = false
	}
	if g.focus == "C07" {
		// the two recorded C06 findings (a lagging sync peer that stays; no fresh connection while not current) are
		// C06's to explore; C07 asks for convergence after a misbehaviour under the plain liveness conditions
		// (with fresh timestamps the no-reconnect case is free of the second finding and is explored here too: a
		// service that lost its sync peer to a ban must go on with the candidates it already has)
		if !g.fresh {
			reconnect = true
		}
		if mode == "others-stay" {
			mode = "others-follow"
		}
		r.Cfg["heal_mode"], r.Cfg["heal_reconnect"] = mode, reconnect
	}
	r.Cfg["heal_reconnect"] = reconnect
	r.Logf("HEAL mode=%s", mode)
	for _, c := range g.liveConns(nil) {
		c.silent = false
		c.partitioned = false
	}
	for _, n := range g.nodes {
		if n == g.honest {
			continue
		}
		switch mode {
		case "others-leave":
			n.gone = true // (it does not answer the service's dials either)
			for _, c := range n.conns {
				if !c.closed && !c.dead {
					_ = c.nodeEnd.Close()
					c.closed = true
					g.settle()
				}
			}
		case "others-follow":
			n.role, n.silentAt, n.closeAt = "honest", -1, -1
		}
	}
	deadline := g.now().Add(3 * time.Hour)
	H := g.honest
	round := 0
	// "ends up storing that peer's best chain ... whenever new blocks are announced": once the service has caught
	// up for the first time the honest node finds a few more blocks, one at a time, each announced once (by every
	// node that follows it); after each of them the service has to catch up again, without the help of a later
	// announcement
	var fresh []*nodeConn // connections the honest node opened during healing
	lastBlocks := g.t.Range(0, 2, "heal-last-blocks")
	r.Cfg["heal_last_blocks"] = lastBlocks
	caughtUp := false
	for g.now().Before(deadline) {
		round++
		r.Step++
		// the honest node keeps a connection
		if len(g.liveConns(func(c *nodeConn) bool { return c.node == H })) == 0 {
			// a banned or over-limit host would be refused; the honest node never misbehaves
			c := g.connect(H)
			fresh = append(fresh, c)
			r.Logf("heal: honest node reconnects as %s", c)
		}
		if mode == "others-follow" {
			for _, n := range g.nodes {
				if n != H && n.best != H.best {
					n.best = H.best
				}
			}
		}
		// deliver everything that is pending, whole; every dial reaches its node
		dialBudget := 8 // per round: the connection manager never stops asking (its target is out of reach of a handful of hosts)
		for i := 0; i < 50; i++ {
			moved := false
			for _, tk := range g.parkedDials() {
				if dialBudget == 0 {
					break
				}
				dialBudget--
				g.answerDial(tk, true)
				moved = true
				g.settle()
			}
			for _, c := range g.liveConns(nil) {
				if c.nodeEnd.PendingOut() > 0 {
					g.deliver(c, 0)
					g.afterDeliver(c)
					moved = true
					g.settle()
				}
			}
			if !moved {
				g.settle()
				break
			}
		}
		if g.converged() && round > 1 {
			if lastBlocks == 0 {
				r.Logf("heal: converged in round %d", round)
				g.finalChecks()
				return
			}
			if !caughtUp {
				r.Logf("heal: caught up in round %d", round)
				deadline = g.now().Add(90 * time.Minute)
			}
			caughtUp = true
			lastBlocks--
			r.Probe("block-announced-after-catching-up")
			g.mineAndAnnounce(H)
			if mode == "others-follow" {
				for _, n := range g.nodes {
					if n != H {
						n.best = H.best
						g.announce(n, H.best)
					}
				}
			}
			g.settle()
			continue
		}
		// liveness assumption of the real network: the honest node finds and announces a new block now and then
		if reconnect && round%7 == 0 && len(g.liveConns(func(c *nodeConn) bool { return c.node == H && c.inbound })) < 3 {
			c := g.connect(H)
			fresh = append(fresh, c)
			r.Logf("heal: honest node opens a fresh connection %s", c)
		}
		if caughtUp {
			// no further announcement comes to the rescue
			g.advance([]time.Duration{time.Second, 16 * time.Second, 31 * time.Second, 95 * time.Second}[round%4])
		} else if round%3 == 0 && round <= 30 {
			g.mineAndAnnounce(H)
			if mode == "others-follow" {
				for _, n := range g.nodes {
					if n != H {
						n.best = H.best
						g.announce(n, H.best)
					}
				}
			}
		} else {
			d := []time.Duration{time.Second, 16 * time.Second, 31 * time.Second, 95 * time.Second}[round%4]
			g.advance(d)
		}
		g.settle()
	}
	tip := g.w.Svc.Headers.GetTip()
	th, thh := int32(-1), "nil"
	if tip != nil {
		th, thh = tip.Height, tip.Hash.String()[:8]
	}
	// "reconnect" in the signature says whether a fresh connection of the honest node was actually taken up while
	// healing (with its host at the per-host limit, or enough connections open already, none is)
	reconnected := false
	for _, c := range fresh {
		if c.gotVer && c.gotVerack {
			reconnected = true
		}
	}
	sig := fmt.Sprintf("mode=%s,reconnect=%v,ck-disabled=%v,fresh=%v", mode, reconnected, g.disableCk, g.fresh)
	if caughtUp {
		sig += ",after-catching-up"
	}
	if g.focus == "C07" {
		// "after either event the service still converges on an honest peer's chain": when a misbehaviour was
		// delivered in this run, the failed convergence is C07's to report
		for _, c := range g.conns {
			if c.misDelivered {
				r.Fail("C07", "no-convergence-after-misbehaviour", c.misbehaved+","+sig, "after %s delivered a %s header the service never converged on the honest node (best %s at height %d): it reports tip %s at height %d; store: %s", c, c.misbehaved, short(H.best.Hash), H.best.Height, thh, th, g.storeSummary())
			}
		}
	}
	r.Fail("C06", "no-convergence", sig, "3 simulated hours after the faults stopped, with the honest node n0 reachable and announcing (best %s at height %d), the service reports tip %s at height %d; store: %s", short(H.best.Hash), H.best.Height, thh, th, g.storeSummary())
}

// storeSummary lists the stored headers by height (diagnostics of a failed convergence).
func (g *p2pRig) storeSummary() string {
	rows := g.w.Snapshot()
	var rs []Row
	for _, x := range rows {
		rs = append(rs, x)
	}
	sort.Slice(rs, func(i, j int) bool {
		if rs[i].Height != rs[j].Height {
			return rs[i].Height < rs[j].Height
		}
		return rs[i].Hash < rs[j].Hash
	})
	onHonest := map[string]bool{}
	for _, h := range chainOf(g.honest.best) {
		onHonest[h.HashStr()] = true
	}
	var sb strings.Builder
	for _, x := range rs {
		mark := ""
		if !onHonest[x.Hash] {
			mark = "*"
		}
		fmt.Fprintf(&sb, "%d:%s:%s%s ", x.Height, x.Hash[:6], x.State[:2], mark)
		if sb.Len() > 1500 {
			sb.WriteString("...")
			break
		}
	}
	return sb.String()
}

func (g *p2pRig) converged() bool {
	tip := g.w.Svc.Headers.GetTip()
	if tip == nil || tip.Hash.String() != g.honest.best.HashStr() {
		return false
	}
	for _, c := range g.liveConns(nil) {
		if c.nodeEnd.PendingOut() > 0 {
			return false
		}
	}
	return true
}

// outboundRestored (outbound class, end of the healing phase): every dial now succeeds and nobody misbehaves any more -
// so the service either reaches its outbound target (8) or ends up with an outbound connection to every host whose
// address it was told, that is not banned, and that has room under the per-host limit ("keeps asking for addresses and dialling ... replaces an outbound connection that closes; counters return
// to zero when the peers have left, so limits neither leak nor wedge admission over time").
func (g *p2pRig) outboundRestored() {
	r := g.r
	if !g.outbound {
		return
	}
	// addresses the service has been told: seed + addr messages that were delivered on a live connection
	for _, at := range g.addrTold {
		if at.c.nodeEnd.PendingOut() == 0 && !at.c.partitioned {
			g.knownAddr[at.host] = true
		}
	}
	missing := func() []string {
		var out []string
		est := 0
		for _, c := range g.conns {
			if !c.inbound && !c.closed && !c.dead {
				est++
			}
		}
		if est >= 8 {
			return nil // the target is reached (several connections to one host may count towards it)
		}
		total := 0
		for _, l := range g.admitted {
			for _, x := range l {
				if x.admittedLive {
					total++
				}
			}
		}
		if total >= config.MaxPeers {
			return nil // the service is full: whatever it dials it has to turn away again
		}
		for _, n := range g.nodes {
			host := n.ip.String()
			if n.gone || !g.knownAddr[host] || g.refusals[host] >= 10 { // (many refusals: the address manager may have given up on it)
				continue
			}
			if until, banned := g.banUntil[host]; banned && g.now().Before(until) {
				continue
			}
			live, outb := 0, 0
			for _, c := range n.conns {
				if !c.closed && !c.dead {
					live++
					if !c.inbound && c.handshaken() {
						outb++
					}
				}
			}
			if outb == 0 && live < 4 {
				out = append(out, host)
			}
		}
		return out
	}
	deadline := g.now().Add(40 * time.Minute)
	for len(missing()) > 0 && g.now().Before(deadline) {
		r.Step++
		budget := 8
		for _, tk := range g.parkedDials() {
			if budget == 0 {
				break
			}
			budget--
			g.answerDial(tk, true)
			g.settle()
		}
		for i := 0; i < 6; i++ {
			moved := false
			for _, c := range g.liveConns(nil) {
				if c.nodeEnd.PendingOut() > 0 {
					g.deliver(c, 0)
					g.afterDeliver(c)
					g.settle()
					moved = true
				}
			}
			if !moved {
				break
			}
		}
		g.advance(7 * time.Second)
	}
	if m := missing(); len(m) > 0 {
		r.Fail("C18", "outbound-not-restored", fmt.Sprintf("hosts=%d", len(m)), "40 simulated minutes after the faults stopped, with every dial succeeding, the service holds no outbound connection to %v although it knows the address, the host is not banned and has room under the per-host limit (outbound target 8, %d scripted hosts)", m, len(g.nodes))
	}
	r.Probe("outbound-restored")
}

// drainConn delivers what a connection has pending, one message per step, until nothing is left or it is dead.
func (g *p2pRig) drainConn(c *nodeConn) {
	for k := 0; k < 8 && c.nodeEnd.PendingOut() > 0 && !c.dead && !c.closed; k++ {
		g.deliver(c, 0)
		g.afterDeliver(c)
		g.settle()
	}
}

// flap (outbound class, directed): the service's outbound connections are established and lost again, thirty times
// over. Every one of them was a success first: nothing about it may add up to a reason to give an address up.
func (g *p2pRig) flap() {
	r := g.r
	r.Probe("outbound-flapping")
	r.Logf("flapping: outbound connections are lost as soon as they are established, 30 rounds")
	for cycle := 0; cycle < 30; cycle++ {
		r.Step++
		budget := 8
		for _, tk := range g.parkedDials() {
			if budget == 0 {
				break
			}
			budget--
			g.answerDial(tk, true)
			g.settle()
		}
		for _, c := range g.liveConns(func(c *nodeConn) bool { return !c.inbound }) {
			g.drainConn(c)
		}
		for _, c := range g.liveConns(func(c *nodeConn) bool { return !c.inbound && c.handshaken() }) {
			_ = c.nodeEnd.Close()
			c.closed = true
			g.settle()
		}
		g.advance(6 * time.Second)
	}
}

// everyoneLeavesAndReturns (C18, end of the run): all peers leave; then the limits must be what they were at the
// start - "per-host and per-group counters return to zero when the corresponding peers have left, so limits neither
// leak nor wedge admission over time": the outbound connections come back (outboundRestored) and every host that is
// not banned is admitted again, connection by connection, as the counting model says.
func (g *p2pRig) everyoneLeavesAndReturns() {
	r, t := g.r, g.t
	if g.outbound && t.Chance(1, 6, "flap") {
		g.flap()
	}
	r.Logf("everybody leaves")
	r.Probe("everybody-leaves")
	for _, c := range g.liveConns(nil) {
		r.Step++
		_ = c.nodeEnd.Close()
		c.closed = true
		g.settle()
	}
	g.advance(20 * time.Second)
	g.outboundRestored()
	for _, n := range g.nodes {
		if until, banned := g.banUntil[n.ip.String()]; (banned && g.now().Before(until)) || n.gone {
			continue
		}
		for k := 0; k < 3; k++ {
			r.Step++
			c := g.connect(n)
			r.Logf("connect %s from %s (after everybody had left)", c, n.ip)
			g.settle()
			g.drainConn(c)
		}
	}
}

func (g *p2pRig) finalChecks() {
	r := g.r
	defer func() {
		// (after the store has been judged)
		g.outboundRestored()
		if g.focus == "C18" {
			g.everyoneLeavesAndReturns()
		}
	}()
	rows := g.w.Snapshot()
	for _, h := range chainOf(g.honest.best) {
		row, ok := rows[h.HashStr()]
		if !ok || row.State != LLongest {
			st := "missing"
			if ok {
				st = row.State
			}
			r.Fail("C06", "honest-chain-not-stored", "final", "header %s (height %d) of the honest node's best chain is %s", short(h.Hash), h.Height, st)
		}
	}
	if msg := structuralCheck(rows); msg != "" {
		r.Fail("C06", "structure", "final", "%s", msg)
	}
	_ = strings.Join
}
