package verifsim

import (
	"fmt"
	"net"
	"testing/synctest"
	"time"

	"github.com/bitcoin-sv/block-headers-service/config"
	"github.com/bitcoin-sv/block-headers-service/internal/chaincfg"
	"github.com/bitcoin-sv/block-headers-service/internal/chaincfg/chainhash"
	xpeer "github.com/bitcoin-sv/block-headers-service/internal/transports/p2p/peer"
)

// p2pxsim: the experimental sync engine (internal/transports/p2p/peer) over a simulated connection to a scripted
// node, within its single-outbound-peer design. The 130-line server.go wrapper (DNS, net.Dial, net.Listen) is
// replaced by the harness, which performs connectPeer's calls itself: peer.NewPeer, Connect, StartHeadersSync.
// Serves C06 and C07 (second engine).

func init() {
	register(&Engine{Name: "p2pxsim", Props: []string{"C06", "C07"}, Exec: p2pxsimExec, Bubble: true})
}

func p2pxsimExec(r *Run) {
	withInstantRand(r.Seed, func() { p2pxsimRun(r) })
}

func p2pxsimRun(r *Run) {
	t := r.T
	g := &p2pRig{r: r, t: t, banUntil: map[string]time.Time{}, forbidden: map[Hash32]bool{}, offered: map[Hash32]bool{}, lastGH: map[int]int{}, reqAfterContra: map[int]int{}, everLongest: map[string]bool{}}
	g.start = time.Now()
	g.tree = NewModel(genesisRaw())
	g.experimental = true
	g.focus = r.Prop
	if f := r.Opt["focus"]; f != "" {
		g.focus = f
	}
	g.preload = map[Hash32]bool{}
	g.admitted = map[string][]*nodeConn{}
	g.fresh = true
	L := t.Range(3, 40, "chain-len")
	base := g.start
	tip := g.tree.Genesis
	var honestChain []*MHeader
	for i := 1; i <= L; i++ {
		tip = g.mine(tip, base.Add(-time.Duration(L-i)*10*time.Minute-time.Minute), bitsNormal[0])
		honestChain = append(honestChain, tip)
	}
	// checkpoints of the experimental engine come from the chain parameters; "none" is a reachable configuration
	ckShape := []string{"none", "one", "several", "last-at-tip"}[t.Pick([]int{25, 35, 25, 15}, "ck-shape")]
	var ckHeights []int
	switch ckShape {
	case "one":
		ckHeights = []int{t.Range(1, L, "ck-h")}
	case "several":
		for h := t.Range(1, 3, "ck-first"); h <= L; h += t.Range(1, 9, "ck-gap") {
			ckHeights = append(ckHeights, h)
		}
	case "last-at-tip":
		if L > 2 && t.Chance(1, 2, "ck-two") {
			ckHeights = append(ckHeights, t.Range(1, L-1, "ck-h"))
		}
		ckHeights = append(ckHeights, L)
	}
	for _, h := range ckHeights {
		hh := chainhash.Hash(honestChain[h-1].Hash)
		g.ckpts = append(g.ckpts, chaincfg.Checkpoint{Height: int32(h), Hash: &hh})
	}
	oldParamCk := chaincfg.MainNetParams.Checkpoints
	chaincfg.MainNetParams.Checkpoints = g.ckpts
	defer func() { chaincfg.MainNetParams.Checkpoints = oldParamCk }()
	oldCk := config.Checkpoints
	if len(g.ckpts) > 0 {
		config.Checkpoints = g.ckpts // HeaderService.IsCurrent indexes the last element of this list
	}
	defer func() { config.Checkpoints = oldCk }()

	g.capAll = t.Range(1, 7, "reply-cap")
	if t.Chance(1, 3, "big-cap") {
		g.capAll = 2000
	}
	n := &simNode{idx: 0, ip: net.IPv4(20, 10, 1, 1), cap: g.capAll, tree: g.tree, silentAt: -1, closeAt: -1, forbidAt: -1, nonce: 1000, announce: "inv", role: "honest", best: honestChain[L-1]}
	g.nodes = []*simNode{n}
	g.honest = n
	misbehave := ""
	if g.focus == "C07" {
		// the single peer itself misbehaves: forbidden header or checkpoint contradiction inside its chain;
		// convergence on an honest peer is then out of reach by design (single outbound peer)
		misbehave = "forbidden"
		if len(g.ckpts) > 0 && t.Chance(1, 2, "contra") {
			misbehave = "contra"
		}
		g.capAll, n.cap = 2000, 2000
		switch misbehave {
		case "forbidden":
			at := t.Range(0, L-1, "forbidden-at")
			parent := g.tree.Genesis
			if at > 0 {
				parent = honestChain[at-1]
			}
			F := g.mine(parent, base.Add(-time.Duration(L-at)*10*time.Minute), bitsNormal[0])
			g.forbidden[F.Hash] = true
			tp := F
			for i, k := 0, t.Range(0, 3, "forbidden-descendants"); i < k; i++ {
				tp = g.mine(tp, base.Add(-time.Minute), bitsNormal[0])
			}
			n.role, n.best, n.forbidden = "forbidden", tp, F
		case "contra":
			lastCk := int(g.ckpts[len(g.ckpts)-1].Height)
			at := t.Range(0, lastCk-1, "contra-fork-at")
			ckH := 0
			for _, ck := range g.ckpts {
				if int(ck.Height) > at {
					ckH = int(ck.Height)
					break
				}
			}
			parent := g.tree.Genesis
			if at > 0 {
				parent = honestChain[at-1]
			}
			tp := parent
			for int(tp.Height) < ckH+t.Range(0, 2, "contra-extra") {
				tp = g.mine(tp, base.Add(-time.Duration(L-int(tp.Height))*10*time.Minute-30*time.Second), bitsNormal[0])
			}
			n.role, n.best = "contra", tp
		}
	}
	initial := []string{"genesis", "prefix"}[t.Pick([]int{60, 40}, "initial-store")]
	r.Cfg["engine"] = "experimental"
	r.Cfg["chain"] = L
	r.Cfg["checkpoints"] = fmt.Sprint(ckHeights)
	r.Cfg["cap"] = g.capAll
	r.Cfg["initial"] = initial
	r.Cfg["misbehaviour"] = misbehave

	w := NewWorld(r)
	g.w = w
	defer w.Destroy()
	w.Cfg.P2P.Experimental = true
	for _, fh := range g.forbidden2list() {
		ch := chainhash.Hash(fh)
		chaincfg.MainNetParams.HeadersToIgnore = append(chaincfg.MainNetParams.HeadersToIgnore, &ch)
	}
	w.Open()
	if initial == "prefix" {
		for _, h := range honestChain[:t.Range(1, L, "prefix-len")] {
			if misbehave != "" && h.Height >= n.best.Height {
				break
			}
			if _, err := w.Svc.Chains.Add(toSource(h.Raw)); err != nil {
				Infra("pre-load: %v", err)
			}
			g.preload[h.Hash] = true
		}
	}
	// connectPeer, as the experimental server does it (outbound connection to its first seed)
	g.connSeq++
	nodeEnd, svcEnd := simPipe(n.addr(8333), &net.TCPAddr{IP: net.IPv4(10, 0, 0, 1), Port: 50001})
	nodeEnd.SetGated(true)
	c := &nodeConn{id: g.connSeq, node: n, nodeEnd: nodeEnd, svcEnd: svcEnd, inbound: false, openedAt: r.Step}
	n.conns = append(n.conns, c)
	g.conns = append(g.conns, c)
	p, err := xpeer.NewPeer(svcEnd, false, w.Cfg.P2P, w.Cfg.P2P.GetNetParams(), w.Svc.Headers, w.Svc.Chains, &w.Log)
	if err != nil {
		Infra("NewPeer: %v", err)
	}
	connectErr := make(chan error, 1)
	go func() {
		if err := p.Connect(); err != nil {
			connectErr <- err
			return
		}
		connectErr <- p.StartHeadersSync()
	}()
	defer func() {
		// the node never closes the connection while the engine runs (its reader spins on a closed connection:
		// recorded observation); closing comes last, right before the bubble ends
		synctest.Wait()
	}()
	g.settle()

	nSteps := t.Range(8, 60, "fault-steps")
	for s := 0; s < nSteps; s++ {
		if !t.Chance(39, 40, "more") && s > 5 {
			break
		}
		g.stepX(c)
	}
	// healing: the node answers everything, announces new blocks; the service must end on the node's chain
	g.healing = true
	c.silent = false
	r.Logf("HEAL")
	if misbehave != "" {
		// C07 on this engine: containment only (the single peer is the offender)
		for i := 0; i < 30; i++ {
			if c.nodeEnd.PendingOut() > 0 {
				c.nodeEnd.Deliver(0)
				g.afterDeliver(c)
			}
			g.settle()
			g.advance(5 * time.Second)
		}
		if !c.misDelivered {
			r.Probe("misbehaviour-never-requested")
		} else if !c.dead {
			r.Fail("C07", "not-disconnected", c.misbehaved+"|experimental", "the experimental engine kept the connection after a %s header", c.misbehaved)
		}
		r.SimTime = time.Since(g.start)
		r.Shape = r.Trace
		r.Nontrivial = c.misDelivered
		return
	}
	deadline := g.now().Add(2 * time.Hour)
	for round := 1; g.now().Before(deadline); round++ {
		r.Step++
		for i := 0; i < 50 && c.nodeEnd.PendingOut() > 0; i++ {
			c.nodeEnd.Deliver(0)
			g.afterDeliver(c)
			g.settle()
		}
		g.settle()
		if g.converged() && round > 1 {
			r.Logf("heal: converged in round %d", round)
			g.finalChecks()
			r.SimTime = time.Since(g.start)
			r.Shape = r.Trace
			r.Nontrivial = g.nReplies >= 2 || g.nFaults > 0 || g.announced > 0
			return
		}
		if c.dead {
			break
		}
		if round%3 == 0 && round <= 24 {
			g.mineAndAnnounce(n)
		} else {
			g.advance([]time.Duration{time.Second, 16 * time.Second, 31 * time.Second, 95 * time.Second}[round%4])
		}
	}
	tip2 := w.Svc.Headers.GetTip()
	th, thh := int32(-1), "nil"
	if tip2 != nil {
		th, thh = tip2.Height, tip2.Hash.String()[:8]
	}
	why := "after 2 simulated hours"
	if c.dead {
		why = "the engine closed its only connection"
	}
	r.Fail("C06", "no-convergence", fmt.Sprintf("experimental,closed=%v,ck=%s,cap=%s", c.dead, ckShape, map[bool]string{true: "2000", false: "small"}[g.capAll == 2000]), "experimental engine, conformant single peer (best %s at height %d): %s the service reports tip %s at height %d; store: %s", short(n.best.Hash), n.best.Height, why, thh, th, g.storeSummary())
}

// stepX: one scheduler event of the experimental rig (single connection).
func (g *p2pRig) stepX(c *nodeConn) {
	r, t := g.r, g.t
	r.Step++
	type ev struct {
		kind string
		w    int
	}
	evs := []ev{{"clock", 8}, {"mine", 5}, {"silent", 2}}
	if c.nodeEnd.PendingOut() > 0 && !c.dead {
		evs = append(evs, ev{"deliver", 40})
	}
	ws := make([]int, len(evs))
	for i, e := range evs {
		ws[i] = e.w
	}
	switch evs[t.Pick(ws, "event")].kind {
	case "deliver":
		k := 0
		if t.Chance(1, 4, "fragment") {
			k = 1 + t.Draw(c.nodeEnd.PendingOut(), "fragment-bytes")
			r.Fault("fragmented-delivery")
		}
		n := c.nodeEnd.Deliver(k)
		r.Logf("deliver %s %d bytes", c, n)
		g.afterDeliver(c)
	case "mine":
		if c.node.role == "honest" {
			g.mineAndAnnounce(c.node)
		}
	case "silent":
		c.silent = !c.silent
		r.Logf("%s silent=%v", c, c.silent)
		if c.silent {
			g.nFaults++
			r.Fault("node-stall")
		}
	case "clock":
		d := []time.Duration{time.Second, 5 * time.Second, 31 * time.Second, 2 * time.Minute, 5 * time.Minute}[t.Pick([]int{30, 25, 20, 15, 10}, "clock-d")]
		r.Logf("clock +%v", d)
		g.advanceX(c, d)
		return
	}
	g.settle()
}

// advanceX: time passes in chunks; unlike the default-engine rig nothing is delivered behind the scheduler's back
// (a stalled node stays stalled), only pongs are answered.
func (g *p2pRig) advanceX(c *nodeConn, d time.Duration) {
	for left := d; left > 0; {
		step := 30 * time.Second
		if left < step {
			step = left
		}
		time.Sleep(step)
		left -= step
		g.settle()
	}
}
