package verifsim

import (
	"context"
	"database/sql"
	"database/sql/driver"
	"fmt"
	"strings"
	"sync"

	"github.com/jmoiron/sqlx"
	sqlite3 "github.com/mattn/go-sqlite3"
)

// Layer 2 of the simulated storage: a wrapper around the production SQLite driver. The simulator sees every
// BEGIN / statement / COMMIT of the service at the only layer where this code base can meet a dying process
// "inside" a repository call. The harness opens the SAME database file with it (after the real database.Init has
// migrated it) and hands the *sqlx.DB to sql.NewHeadersDb exactly as cmd/main.go does.

const simDriverName = "sqlite3-sim"

var (
	registerSimDriver sync.Once
	// sqlHook is consulted before/after every write-path driver call: op is begin | exec | commit | committed.
	// It may panic with crashPanic (the process dies there).
	sqlHook func(op, query string)
	// sqlFail may make a call fail: a non-nil error is returned to database/sql instead of executing the statement;
	// for op "commit" the transaction is rolled back and the error returned (a COMMIT that fails, e.g. SQLITE_BUSY /
	// SQLITE_FULL); for op "exec" a write statement fails inside its (still open) transaction; for op "query" the
	// read fails before it starts.
	sqlFail func(op, query string) error
	// sqlQueryHook is called before every read statement reaches SQLite (no statement of the calling connection is
	// active at that moment): the place where "something else happens between two reads of one request".
	sqlQueryHook func(query string)
	// sqlRowsClosedHook is called after the result of a read statement has been consumed and closed (the statement is
	// finished, the connection holds no SQLite lock) and before database/sql hands the result to its caller: the
	// place where "the caller has read, and is slow to act on what it read". Only consulted while non-nil.
	sqlRowsClosedHook func(query string)
)

// simRows reports the end of a result set (only installed while sqlRowsClosedHook is set).
type simRows struct {
	driver.Rows
	q string
}

func (r *simRows) Close() error {
	err := r.Rows.Close()
	if h := sqlRowsClosedHook; h != nil {
		h(r.q)
	}
	return err
}

func wrapRows(rows driver.Rows, err error, q string) (driver.Rows, error) {
	if err != nil || sqlRowsClosedHook == nil {
		return rows, err
	}
	return &simRows{Rows: rows, q: q}, nil
}

type simDriver struct{ base driver.Driver }

func (d *simDriver) Open(dsn string) (driver.Conn, error) {
	c, err := d.base.Open(dsn)
	if err != nil {
		return nil, err
	}
	simConnsMu.Lock()
	simConns = append(simConns, c)
	simConnsMu.Unlock()
	return &simSQLConn{Conn: c}, nil
}

var (
	simConnsMu sync.Mutex
	simConns   []driver.Conn
)

// simKillAll is the storage side of a process death: every SQLite connection opened through the wrapper is closed
// at once (SQLite rolls an open transaction back and drops its file locks, as the operating system would for a
// dead process); database/sql is left to discover that its connections are gone.
func simKillAll() {
	simConnsMu.Lock()
	cs := simConns
	simConns = nil
	simConnsMu.Unlock()
	for _, c := range cs {
		_ = c.Close()
	}
}

type simSQLConn struct{ driver.Conn }

// failedWrite runs a write statement and undoes it (savepoint, statement, rollback to the savepoint): what is left is
// what a statement leaves that failed half-way - no change, and the connection's transaction, if one is open, holding
// the write lock.
func (c *simSQLConn) failedWrite(ctx context.Context, stmt func()) {
	ex := c.Conn.(driver.ExecerContext)
	if _, err := ex.ExecContext(ctx, "SAVEPOINT sim_failed_write", nil); err != nil {
		return
	}
	stmt()
	_, _ = ex.ExecContext(ctx, "ROLLBACK TO sim_failed_write", nil)
	_, _ = ex.ExecContext(ctx, "RELEASE sim_failed_write", nil)
}

// simBusyTimeoutMS, when > 0, shortens SQLite's wait for a lock held by another connection (5 s of real time by
// default in the production DSN): the answer - SQLITE_BUSY - is the same, it only comes sooner.
var simBusyTimeoutMS int

func hookSQL(op, q string) {
	if sqlHook != nil {
		sqlHook(op, q)
	}
}

func isWrite(q string) bool {
	t := strings.ToUpper(strings.TrimSpace(q))
	return strings.HasPrefix(t, "INSERT") || strings.HasPrefix(t, "UPDATE") || strings.HasPrefix(t, "DELETE")
}

func (c *simSQLConn) ExecContext(ctx context.Context, query string, args []driver.NamedValue) (driver.Result, error) {
	if isWrite(query) {
		if sqlFail != nil {
			if err := sqlFail("exec", query); err != nil {
				// a write statement that fails half-way (SQLITE_IOERR / SQLITE_FULL): SQLite undoes the statement, the
				// caller's transaction stays open and KEEPS the write lock the statement took
				c.failedWrite(ctx, func() { _, _ = c.Conn.(driver.ExecerContext).ExecContext(ctx, query, args) })
				return nil, err
			}
		}
		hookSQL("exec", query)
	}
	return c.Conn.(driver.ExecerContext).ExecContext(ctx, query, args)
}

func (c *simSQLConn) QueryContext(ctx context.Context, query string, args []driver.NamedValue) (driver.Rows, error) {
	if sqlQueryHook != nil {
		sqlQueryHook(query)
	}
	if sqlFail != nil {
		if err := sqlFail("query", query); err != nil {
			return nil, err // a read that fails (SQLITE_BUSY while another connection holds the write lock, I/O error)
		}
	}
	rows, err := c.Conn.(driver.QueryerContext).QueryContext(ctx, query, args)
	return wrapRows(rows, err, query)
}

func (c *simSQLConn) PrepareContext(ctx context.Context, query string) (driver.Stmt, error) {
	st, err := c.Conn.(driver.ConnPrepareContext).PrepareContext(ctx, query)
	if err != nil {
		return nil, err
	}
	return &simSQLStmt{Stmt: st, q: query, c: c}, nil
}

func (c *simSQLConn) BeginTx(ctx context.Context, opts driver.TxOptions) (driver.Tx, error) {
	hookSQL("begin", "")
	tx, err := c.Conn.(driver.ConnBeginTx).BeginTx(ctx, opts)
	if err != nil {
		return nil, err
	}
	return &simSQLTx{Tx: tx}, nil
}

func (c *simSQLConn) Ping(ctx context.Context) error {
	if p, ok := c.Conn.(driver.Pinger); ok {
		return p.Ping(ctx)
	}
	return nil
}

func (c *simSQLConn) ResetSession(ctx context.Context) error {
	if r, ok := c.Conn.(driver.SessionResetter); ok {
		return r.ResetSession(ctx)
	}
	return nil
}

func (c *simSQLConn) IsValid() bool {
	if v, ok := c.Conn.(driver.Validator); ok {
		return v.IsValid()
	}
	return true
}

type simSQLStmt struct {
	driver.Stmt
	q string
	c *simSQLConn
}

func (s *simSQLStmt) ExecContext(ctx context.Context, args []driver.NamedValue) (driver.Result, error) {
	if isWrite(s.q) {
		if sqlFail != nil {
			if err := sqlFail("exec", s.q); err != nil {
				if s.c != nil {
					s.c.failedWrite(ctx, func() { _, _ = s.Stmt.(driver.StmtExecContext).ExecContext(ctx, args) })
				}
				return nil, err
			}
		}
		hookSQL("exec", s.q)
	}
	return s.Stmt.(driver.StmtExecContext).ExecContext(ctx, args)
}

func (s *simSQLStmt) QueryContext(ctx context.Context, args []driver.NamedValue) (driver.Rows, error) {
	if sqlQueryHook != nil {
		sqlQueryHook(s.q)
	}
	if sqlFail != nil {
		if err := sqlFail("query", s.q); err != nil {
			return nil, err
		}
	}
	rows, err := s.Stmt.(driver.StmtQueryContext).QueryContext(ctx, args)
	return wrapRows(rows, err, s.q)
}

type simSQLTx struct{ driver.Tx }

func (t *simSQLTx) Commit() error {
	if sqlFail != nil {
		if err := sqlFail("commit", ""); err != nil {
			_ = t.Tx.Rollback()
			return err
		}
	}
	hookSQL("commit", "")
	err := t.Tx.Commit()
	if err == nil {
		hookSQL("committed", "")
	}
	return err
}

// openSim opens the database file with the wrapper driver, with the DSN the production adapter uses.
func openSim(path string) *sqlx.DB {
	registerSimDriver.Do(func() { sql.Register(simDriverName, &simDriver{base: &sqlite3.SQLiteDriver{}}) })
	dsn := fmt.Sprintf("file:%s?_foreign_keys=true&pooling=true", path)
	if simBusyTimeoutMS > 0 {
		dsn += fmt.Sprintf("&_busy_timeout=%d", simBusyTimeoutMS)
	}
	db, err := sqlx.Open(simDriverName, dsn)
	if err != nil {
		Infra("open %s: %v", simDriverName, err)
	}
	return db
}
