package verifsim

import (
	"fmt"
	"strings"
	"testing"
	"testing/synctest"
)

var theT *testing.T

func init() {
	runInBubble = func(body func()) {
		if theT == nil {
			panic(HarnessError{"no *testing.T for synctest bubble"})
		}
		defer func() {
			if p := recover(); p != nil {
				s := fmt.Sprint(p)
				// goroutines of a "crashed" generation or of the code's own design (DonePeer after shutdown)
				// may stay parked for good; that is expected and not a verdict.
				if strings.Contains(s, "blocked goroutines remain") || strings.Contains(s, "deadlock: main bubble goroutine has exited") {
					return
				}
				panic(p)
			}
		}()
		synctest.Test(theT, func(*testing.T) { body() })
	}
}
