package verifsim

import (
	"encoding/json"
	"errors"
	"fmt"
	"io"
	"net/http"
	"sort"
	"strings"
	"sync"
	"testing/synctest"
	"time"

	"github.com/bitcoin-sv/block-headers-service/domains"
	"github.com/bitcoin-sv/block-headers-service/notification"
	"github.com/bitcoin-sv/block-headers-service/repository"
	"github.com/centrifugal/centrifuge"
)

// notifysim: the real Notifier, the real websocket channel (over a scripted publisher), the real webhooks
// service (over the SQL repository and a scripted target client) and extra recording channels. Every delivery
// goroutine parks at its channel's gate; the tape decides which parked delivery proceeds next and interleaves
// deliveries with further submissions, duplicates, forbidden hashes and injected store failures. Serves C11.

func init() {
	register(&Engine{Name: "notifysim", Props: []string{"C11"}, Exec: notifysimExec, Bubble: true})
}

type parkedTask struct {
	endpoint string
	ev       string // event hash
	phase    int
	released bool
	abort    bool
}

func (p *parkedTask) key() string { return fmt.Sprintf("%s|%s|%d", p.endpoint, p.ev, p.phase) }

type gateSet struct {
	mu     sync.Mutex
	cond   *sync.Cond
	parked []*parkedTask
	closed bool
}

func newGateSet() *gateSet { g := &gateSet{}; g.cond = sync.NewCond(&g.mu); return g }

// park blocks the calling delivery goroutine until the scheduler releases it; returns false when aborted.
func (g *gateSet) park(endpoint, ev string, phase int) bool {
	g.mu.Lock()
	defer g.mu.Unlock()
	if g.closed {
		return false
	}
	t := &parkedTask{endpoint: endpoint, ev: ev, phase: phase}
	g.parked = append(g.parked, t)
	for !t.released {
		g.cond.Wait()
	}
	return !t.abort
}

func (g *gateSet) list() []*parkedTask {
	g.mu.Lock()
	defer g.mu.Unlock()
	out := append([]*parkedTask{}, g.parked...)
	sort.Slice(out, func(i, j int) bool { return out[i].key() < out[j].key() })
	return out
}

func (g *gateSet) release(t *parkedTask, abort bool) {
	g.mu.Lock()
	t.released, t.abort = true, abort
	for i, p := range g.parked {
		if p == t {
			g.parked = append(g.parked[:i], g.parked[i+1:]...)
			break
		}
	}
	g.cond.Broadcast()
	g.mu.Unlock()
}

func (g *gateSet) closeAll() {
	g.mu.Lock()
	g.closed = true
	for _, p := range g.parked {
		p.released, p.abort = true, true
	}
	g.parked = nil
	g.cond.Broadcast()
	g.mu.Unlock()
}

const (
	bhOK = iota
	bhError
	bhSlow
	bhBlock
	bhInstant // returns at once, without ever parking (the usual case in production: an in-memory publish)
)

var bhNames = []string{"ok", "error", "slow", "block", "instant"}

type notifySim struct {
	r     *Run
	g     *gateSet
	mu    sync.Mutex
	got   map[string][]map[string]any // endpoint -> delivered events
	behav map[string]int
	// what the websocket publisher was handed: like centrifuge's memory broker (channel history, recovery after a
	// reconnect) it keeps the slice itself, not a copy
	retained []retainedPub
}

type retainedPub struct {
	data []byte
	was  string
}

func evHashOf(ev map[string]any) string {
	if h, ok := ev["header"].(map[string]any); ok {
		if s, ok := h["hash"].(string); ok {
			return s
		}
	}
	return "?"
}

// deliver is what every scripted endpoint does with an event: park (possibly several times), then record.
func (n *notifySim) deliver(endpoint string, raw []byte) error {
	var ev map[string]any
	dec := json.NewDecoder(strings.NewReader(string(raw)))
	dec.UseNumber()
	if err := dec.Decode(&ev); err != nil {
		ev = map[string]any{"undecodable": string(raw)}
	}
	hash := evHashOf(ev)
	b := n.behav[endpoint]
	phases := 1
	if b == bhSlow {
		phases = 3
	}
	if b == bhInstant {
		phases = 0
	}
	for p := 0; p < phases; p++ {
		if !n.g.park(endpoint, hash, p) {
			return errors.New("simnet: aborted")
		}
	}
	n.mu.Lock()
	n.got[endpoint] = append(n.got[endpoint], ev)
	n.mu.Unlock()
	if b == bhError {
		return errors.New("simnet: channel failure")
	}
	return nil
}

// scripted websocket publisher (under the real notification.NewWebsocketChannel)
type simPublisher struct{ n *notifySim }

func (p *simPublisher) Publish(channel string, data []byte, _ ...centrifuge.PublishOption) (centrifuge.PublishResult, error) {
	err := p.n.deliver("ws:"+channel, data)
	p.n.mu.Lock()
	p.n.retained = append(p.n.retained, retainedPub{data, string(data)})
	p.n.mu.Unlock()
	return centrifuge.PublishResult{}, err
}

// scripted webhook target (under the real notification.WebhooksService)
type simTarget struct{ n *notifySim }

func (c *simTarget) Call(_ map[string]string, _ string, url string, body any) (*http.Response, error) {
	raw, _ := json.Marshal(body)
	if err := c.n.deliver("hook:"+url, raw); err != nil {
		return nil, err
	}
	return &http.Response{StatusCode: 200, Body: io.NopCloser(strings.NewReader("ok"))}, nil
}

// plain recording channel
type recChannel struct {
	n    *notifySim
	name string
}

func (c *recChannel) Notify(ev notification.Event) {
	raw, _ := json.Marshal(ev)
	_ = c.n.deliver(c.name, raw)
}

func notifysimExec(r *Run) {
	t := r.T
	start := time.Now()
	w := NewWorld(r)
	defer w.Destroy()
	n := &notifySim{r: r, g: newGateSet(), got: map[string][]map[string]any{}, behav: map[string]int{}}
	defer func() { n.g.closeAll(); synctest.Wait() }()
	w.Cfg.Webhook.MaxTries = 1 << 20 // deactivation is C12's subject; here every event must be attempted
	// channels and their behaviours
	nHooks := t.Range(0, 2, "n-hooks")
	nRec := t.Range(0, 2, "n-rec")
	var endpoints []string
	endpoints = append(endpoints, "ws:headers")
	hookList := []string{"http://h1.sim/a", "http://h2.sim/b"}[:nHooks]
	for _, u := range hookList {
		endpoints = append(endpoints, "hook:"+u)
	}
	for i := 0; i < nRec; i++ {
		endpoints = append(endpoints, fmt.Sprintf("rec%d", i+1))
	}
	for _, e := range endpoints {
		n.behav[e] = t.Pick([]int{35, 20, 20, 10, 15}, "behaviour")
		// the webhooks service is ONE channel that calls its targets one after the other: a target that blocks
		// for good legitimately starves the targets behind it, so webhook targets are at most slow
		if strings.HasPrefix(e, "hook:") && n.behav[e] == bhBlock {
			n.behav[e] = bhSlow
		}
	}
	behStr := []string{}
	for _, e := range endpoints {
		behStr = append(behStr, e+"="+bhNames[n.behav[e]])
	}
	r.Cfg["channels"] = behStr
	// injected store failures on plain inserts
	failInsert := false
	w.WrapRepo = func(repo *repository.Repositories) {
		repo.Headers = &hookedHeaders{in: repo.Headers, Before: func(m string, write bool) error {
			if m == "AddHeaderToDatabase" && failInsert {
				failInsert = false
				r.Fault("insert-error")
				return errInjected
			}
			return nil
		}}
	}
	w.AfterNewServices = func(w *World) {
		w.Svc.Webhooks = notification.NewWebhooksService(w.Repo.Webhooks, &simTarget{n}, &w.Log, w.Cfg.Webhook)
	}
	w.AfterServices = func(w *World) {
		// exactly the registration order of cmd/main.go: webhooks, then the websocket channel
		w.Svc.Notifier.AddChannel(w.Svc.Webhooks)
		w.Svc.Notifier.AddChannel(notification.NewWebsocketChannel(&w.Log, &simPublisher{n}, w.Cfg.Websocket))
		for i := 0; i < nRec; i++ {
			w.Svc.Notifier.AddChannel(&recChannel{n, fmt.Sprintf("rec%d", i+1)})
		}
	}
	w.Open()
	for _, u := range hookList {
		if _, err := w.Svc.Webhooks.CreateWebhook("bearer", "", "tok", u); err != nil {
			Infra("CreateWebhook: %v", err)
		}
	}
	h := NewHist(r, w)
	r.Opt = withOpt(r.Opt, "nozero", "1") // zero-work headers are C01's known finding; here store == model is a premise
	h.DrawCfg(16)
	h.cfg.PRestart = 0
	h.SkipChecks = true
	// expectations: one event per header the model says was stored, with the fields of that moment
	type expEv struct {
		hash, state, prev, merkle, work string
		height                          int32
		version                         int32
		nonce                           uint32
		ts                              int64
	}
	var expected []expEv
	h.OnStored = func(m *MHeader) {
		expected = append(expected, expEv{hash: m.HashStr(), state: m.Label, prev: m.Raw.Prev.String(), merkle: m.Raw.Merkle.String(),
			work: m.Cum.String(), height: m.Height, version: m.Raw.Version, nonce: m.Raw.Nonce, ts: int64(m.Raw.Time)})
	}
	nonStored := 0
	h.AddFn = func(src domains.BlockHeaderSource) (res *domains.BlockHeader, err error) {
		done := make(chan struct{})
		var pv any
		go func() {
			defer close(done)
			defer func() { pv = recover() }()
			res, err = w.Svc.Chains.Add(src)
		}()
		synctest.Wait()
		select {
		case <-done:
		default:
			r.Fail("C11", "ingestion-blocked", "add-waits-for-channel", "Chains.Add did not return while %d deliveries are parked: ingestion is blocked by a notification channel", len(n.g.list()))
		}
		if pv != nil {
			panic(pv)
		}
		return
	}
	releaseOne := func() bool {
		var cands []*parkedTask
		for _, p := range n.g.list() {
			if n.behav[p.endpoint] != bhBlock {
				cands = append(cands, p)
			}
		}
		if len(cands) == 0 {
			return false
		}
		p := cands[t.Draw(len(cands), "release")]
		r.Step++
		r.Logf("release %s ev=%s phase=%d", p.endpoint, p.ev[:8], p.phase)
		n.g.release(p, false)
		synctest.Wait()
		return true
	}
	pDeliver := t.Range(10, 90, "p-deliver")
	for i := 0; i < h.cfg.MaxOps; {
		if t.Chance(pDeliver, 100, "deliver?") {
			if releaseOne() {
				continue
			}
		}
		// injected store failure only on plain extensions (no reorganisation involved)
		if t.Chance(1, 12, "fail-insert") {
			raw := RawHeader{Prev: h.m.Best().Hash, Merkle: h.uniqueHash("merkle"), Version: 1, Bits: bitsNormal[0], Time: h.baseTs + h.ctr*600, Nonce: h.ctr}
			failInsert = true
			r.Step++
			_, err := h.AddFn(toSource(raw))
			r.Logf("submit %s with injected insert failure -> %v", short(raw.Hash()), err)
			if err == nil || failInsert {
				Infra("injected insert failure did not fire")
			}
			nonStored++
			i++
			continue
		}
		before := h.nDup + h.nForb
		if !h.StepOp(i) {
			break
		}
		nonStored += h.nDup + h.nForb - before
		synctest.Wait()
		i++
	}
	// burst (a sync burst against a channel that is stuck or slow): many headers are stored while no delivery at
	// all completes; every Add must return (AddFn checks it) whatever the number of deliveries still outstanding,
	// and afterwards every channel that is not stuck for good gets its events
	burstDen := 100
	if r.Tier == "thorough" {
		burstDen = 25
	}
	if r.Opt["burst"] == "1" || t.Chance(1, burstDen, "burst") {
		nb := []int{70, 130, 300}[t.Pick([]int{70, 25, 5}, "burst-len")]
		r.Cfg["burst"] = nb
		r.Probe("notification-burst")
		h.ExtendBest(nb)
		r.Step += nb
		r.Logf("burst: %d headers stored with %d deliveries outstanding", nb, len(n.g.list()))
	}
	// drain: everything that is not blocked for good is delivered
	for releaseOne() {
	}
	blocked := n.g.list()
	// oracle
	n.mu.Lock()
	defer n.mu.Unlock()
	distinctBeh := map[int]bool{}
	for _, e := range endpoints {
		distinctBeh[n.behav[e]] = true
		got := n.got[e]
		if n.behav[e] == bhBlock {
			if len(got) != 0 {
				r.Fail("C11", "harness", "blocked-delivered", "blocked endpoint %s recorded events", e)
			}
			continue
		}
		seen := map[string]int{}
		for _, ev := range got {
			seen[evHashOf(ev)]++
		}
		shape := fmt.Sprintf("%s|%s", strings.SplitN(e, ":", 2)[0], bhNames[n.behav[e]])
		for _, x := range expected {
			c := seen[x.hash]
			if c != 1 {
				others := []string{}
				for _, o := range endpoints {
					if o != e {
						others = append(others, o+"="+bhNames[n.behav[o]])
					}
				}
				r.Fail("C11", "event-count", fmt.Sprintf("%s|got=%d", shape, min(c, 2)), "channel %s received %d ADD events for stored header %s (height %d), expected exactly 1; other channels: %v", e, c, x.hash[:8], x.height, others)
			}
			delete(seen, x.hash)
		}
		for hsh, c := range seen {
			r.Fail("C11", "spurious-event", shape, "channel %s received %d event(s) for %s, which was not stored (duplicate / forbidden / failed)", e, c, hsh[:min(8, len(hsh))])
		}
		// field equality
		byHash := map[string]map[string]any{}
		for _, ev := range got {
			byHash[evHashOf(ev)] = ev
		}
		for _, x := range expected {
			ev := byHash[x.hash]
			hd, _ := ev["header"].(map[string]any)
			tsOK := false
			if s, ok := hd["creationTimestamp"].(string); ok {
				if tm, err := time.Parse(time.RFC3339, s); err == nil && tm.Unix() == x.ts {
					tsOK = true
				}
			}
			if fmt.Sprint(ev["operation"]) != "ADD" || fmt.Sprint(hd["height"]) != fmt.Sprint(x.height) || fmt.Sprint(hd["state"]) != x.state ||
				fmt.Sprint(hd["version"]) != fmt.Sprint(x.version) || fmt.Sprint(hd["merkleRoot"]) != x.merkle || fmt.Sprint(hd["prevBlockHash"]) != x.prev ||
				fmt.Sprint(hd["nonce"]) != fmt.Sprint(x.nonce) || fmt.Sprint(hd["work"]) != x.work || !tsOK {
				b, _ := json.Marshal(ev)
				r.Fail("C11", "event-fields", shape, "channel %s: event for %s is %s; stored header: height=%d state=%s version=%d merkle=%s prev=%s nonce=%d cumulative work=%s time=%d", e, x.hash[:8], string(b), x.height, x.state, x.version, x.merkle[:8], x.prev[:8], x.nonce, x.work, x.ts)
			}
		}
	}
	// what was published stays what it was (the publisher owns the bytes it was given)
	for i, rp := range n.retained {
		if string(rp.data) != rp.was {
			r.Fail("C11", "published-data-changed", "ws", "websocket publication #%d was %s when published and reads %s now: the bytes handed to the publisher were overwritten afterwards", i+1, truncate(rp.was, 120), truncate(string(rp.data), 120))
		}
	}
	h.SkipChecks = false
	r.SimTime = time.Since(start)
	r.Logf("expected=%d non-stored=%d blocked-deliveries=%d", len(expected), nonStored, len(blocked))
	r.Shape = append([]string{strings.Join(behStr, ",")}, r.Trace...)
	r.Nontrivial = len(endpoints) >= 2 && len(distinctBeh) >= 2 && nonStored >= 1 && len(expected) >= 2
}
