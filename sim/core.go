// Package verifsim is the deterministic-simulation harness for block-headers-service.
// It is compiled INTO the repository's module through a build overlay (see /verif/bin/verif),
// so it may import internal packages; nothing here is ever written to /repo.
package verifsim

import (
	"crypto/sha256"
	"encoding/hex"
	"fmt"
	"os"
	"path/filepath"
	"regexp"
	"runtime/debug"
	"sort"
	"strconv"
	"strings"
	"sync/atomic"
	"time"
	_ "time/tzdata"
)

// ---------------------------------------------------------------------------------------------
// PRNG: SplitMix64. One 64-bit state decides everything in a run.

type PRNG struct{ s uint64 }

func NewPRNG(seed uint64) *PRNG { return &PRNG{s: seed} }

func (p *PRNG) Next() uint64 {
	p.s += 0x9e3779b97f4a7c15
	z := p.s
	z = (z ^ (z >> 30)) * 0xbf58476d1ce4e5b9
	z = (z ^ (z >> 27)) * 0x94d049bb133111eb
	return z ^ (z >> 31)
}

// Mix derives a run seed from (base seed, property, index).
func Mix(base uint64, prop string, i uint64) uint64 {
	h := sha256.Sum256([]byte(fmt.Sprintf("%d|%s|%d", base, prop, i)))
	var v uint64
	for k := 0; k < 8; k++ {
		v = v<<8 | uint64(h[k])
	}
	return v
}

// ---------------------------------------------------------------------------------------------
// Choice tape: every decision of a run is drawn through Draw. Generate mode draws from the PRNG and
// records; replay mode reads the recorded values leniently (v mod n, exhausted => 0, and 0 always
// means "the simplest choice"), which is what makes tapes shrinkable.

type Tape struct {
	rng  *PRNG
	in   []uint32 // replay source (nil in generate mode)
	pos  int
	Out  []uint32 // values actually used (normalised tape)
	Lbl  []string // labels of the draws (for decoded traces only)
	Over bool     // replay ran past the end of the tape
}

func NewGenTape(seed uint64) *Tape      { return &Tape{rng: NewPRNG(seed)} }
func NewReplayTape(vals []uint32) *Tape { return &Tape{in: append([]uint32{}, vals...)} }

// Draw returns a value in [0,n).
func (t *Tape) Draw(n int, label string) int {
	if n <= 1 {
		// still consume a slot so that tapes stay aligned when n varies between replays
		n = 1
	}
	var v uint32
	if t.rng != nil {
		v = uint32(t.rng.Next() % uint64(n))
	} else if t.pos < len(t.in) {
		v = t.in[t.pos] % uint32(n)
	} else {
		t.Over = true
		v = 0
	}
	t.pos++
	t.Out = append(t.Out, v)
	t.Lbl = append(t.Lbl, label)
	return int(v)
}

// Chance returns true with probability num/den; false is the "simple" outcome (value 0).
func (t *Tape) Chance(num, den int, label string) bool {
	if num <= 0 {
		t.Draw(1, label)
		return false
	}
	// value 0 must map to false: true iff v >= den-num
	return t.Draw(den, label) >= den-num
}

// Pick draws an index according to weights; index 0 is the simplest choice.
func (t *Tape) Pick(weights []int, label string) int {
	total := 0
	for _, w := range weights {
		total += w
	}
	if total == 0 {
		t.Draw(1, label)
		return 0
	}
	v := t.Draw(total, label)
	for i, w := range weights {
		if v < w {
			return i
		}
		v -= w
	}
	return len(weights) - 1
}

// Range draws an int in [lo,hi].
func (t *Tape) Range(lo, hi int, label string) int {
	if hi < lo {
		hi = lo
	}
	return lo + t.Draw(hi-lo+1, label)
}

// U32 draws a full 32-bit value (two draws so each stays within int range on every platform).
func (t *Tape) U32(label string) uint32 {
	return uint32(t.Draw(1<<16, label))<<16 | uint32(t.Draw(1<<16, label))
}

// ---------------------------------------------------------------------------------------------
// Violations and the per-run context.

type Violation struct {
	Prop  string `json:"property"`
	Class string `json:"class"`
	Sig   string `json:"sig"` // class + the distinguishing input / call site / history shape
	Msg   string `json:"msg"`
	Step  int    `json:"step"`
}

func (v *Violation) Error() string { return fmt.Sprintf("%s %s: %s", v.Prop, v.Sig, v.Msg) }

type violationPanic struct{ v *Violation }

// Run is the context handed to an engine for one simulated execution.
type Run struct {
	Prop  string // focus property of this check
	Tier  string
	Seed  uint64
	T     *Tape
	Trace []string
	Stats map[string]int
	Step  int
	// SimTime is the simulated time the run covered (engines with a fake clock set it).
	SimTime    time.Duration
	Nontrivial bool
	Shape      []string // canonical description used for the distinct-digest (defaults to Trace)
	Cfg        map[string]any
	KeepTrace  bool
	Opt        map[string]string // options from the job (engine specific switches)
	SubRuns    []string          // enumerated sub-runs (each re-executed with Opt["sub"]=key)
}

func (r *Run) Logf(format string, a ...any) {
	r.Trace = append(r.Trace, fmt.Sprintf("%04d ", r.Step)+fmt.Sprintf(format, a...))
}

func (r *Run) Count(name string)         { r.Stats[name]++ }
func (r *Run) CountN(name string, n int) { r.Stats[name] += n }
func (r *Run) Probe(name string)         { r.Stats["probe."+name]++ }
func (r *Run) Fault(name string)         { r.Stats["fault."+name]++ }

// Fail aborts the run with a violation.
func (r *Run) Fail(prop, class, sig, format string, a ...any) {
	panic(violationPanic{&Violation{Prop: prop, Class: class, Sig: prop + "|" + class + "|" + sig, Msg: fmt.Sprintf(format, a...), Step: r.Step}})
}

// Try runs one oracle block and returns the violation it raised, if any (other panics pass through).
func (r *Run) Try(f func()) (v *Violation) {
	defer func() {
		if p := recover(); p != nil {
			if vp, ok := p.(violationPanic); ok {
				v = vp.v
				return
			}
			panic(p)
		}
	}()
	f()
	return nil
}

// FailFirstOf evaluates independent oracle blocks and aborts the run with the violation of the focus property
// if one of the blocks raised one, otherwise with the first violation raised. A defect that breaks two properties
// is thereby reported under the property the check is about.
func (r *Run) FailFirstOf(blocks ...func()) {
	var vs []*Violation
	for _, b := range blocks {
		if v := r.Try(b); v != nil {
			vs = append(vs, v)
		}
	}
	if len(vs) == 0 {
		return
	}
	for _, v := range vs {
		if v.Prop == r.Prop {
			panic(violationPanic{v})
		}
	}
	panic(violationPanic{vs[0]})
}

// Result of one executed run.
type Result struct {
	Seed       uint64
	Tape       []uint32
	Labels     []string
	Trace      []string
	Stats      map[string]int
	Steps      int
	SimTime    time.Duration
	Nontrivial bool
	Digest     string // digest of the event log (determinism / replay equality)
	ShapeDig   string // digest used for "distinct"
	Viol       *Violation
	Cfg        map[string]any
	HarnessErr string // infrastructure trouble: never a violation
	SubRuns    []string
	RaceSigs   []string // race class: the signatures of all reports of this run
}

type HarnessError struct{ Msg string }

func (h HarnessError) Error() string { return h.Msg }

// Infra aborts the run with an infrastructure error (exit 2 class, never a VIOLATION).
func Infra(format string, a ...any) { panic(HarnessError{fmt.Sprintf(format, a...)}) }

type Engine struct {
	Name  string
	Props []string
	// Exec runs one simulated execution; it reports violations through r.Fail.
	Exec func(r *Run)
	// Wrap, when set, wraps Exec (e.g. in a synctest bubble).
	Bubble bool
}

var engines = map[string]*Engine{}

// runInBubble is installed by bubble_test.go (testing/synctest needs a *testing.T).
var runInBubble func(body func())

func register(e *Engine) { engines[e.Name] = e }

func digestLines(lines []string) string {
	h := sha256.New()
	for _, l := range lines {
		h.Write([]byte(l))
		h.Write([]byte{'\n'})
	}
	return hex.EncodeToString(h.Sum(nil))[:24]
}

// execute runs engine e once on tape t.
// execStart / execSeed: the execution in progress (read by the worker's real-time watchdog).
var (
	execStart atomic.Int64
	execSeed  atomic.Uint64
)

// execRun / execTape: the run in progress, for the watchdog (a run that never ends never returns its result).
var (
	execRun  atomic.Pointer[Run]
	execTape atomic.Pointer[Tape]
)

// spinningSite looks, in a dump of all goroutines, for a goroutine of the newest bubble that is RUNNING (runnable or
// running: it is not waiting for anybody) inside the service's own code: a loop that does not end. Returns the
// innermost frame of the service ("" if there is none: then somebody is blocked where the simulator cannot see it,
// which is the harness's trouble, not a verdict).
func spinningSite(dump string) string {
	site, _ := spinningSiteG(dump)
	return site
}

// spinningSiteG also names the goroutine (its header line up to the state), so that two dumps can be compared.
func spinningSiteG(dump string) (string, string) {
	blocks := strings.Split(dump, "\n\n")
	newest := -1
	re := regexp.MustCompile(`synctest bubble (\d+)`)
	for _, b := range blocks {
		if m := re.FindStringSubmatch(b); m != nil {
			if n, _ := strconv.Atoi(m[1]); n > newest {
				newest = n
			}
		}
	}
	if newest < 0 {
		return "", ""
	}
	tag := fmt.Sprintf("synctest bubble %d]", newest)
	for _, b := range blocks {
		lines := strings.Split(strings.TrimSpace(b), "\n")
		if len(lines) < 2 || !strings.Contains(lines[0], tag) {
			continue
		}
		if !strings.Contains(lines[0], "[runnable") && !strings.Contains(lines[0], "[running") {
			continue
		}
		for _, l := range lines[1:] {
			if strings.HasPrefix(l, "\t") || !strings.Contains(l, "block-headers-service/") || strings.Contains(l, "/verifsim") {
				continue
			}
			fn := l[strings.LastIndex(l, "block-headers-service/")+len("block-headers-service/"):]
			if k := strings.LastIndex(fn, "("); k > 0 {
				fn = fn[:k]
			}
			return fn, strings.SplitN(lines[0], " [", 2)[0]
		}
	}
	return "", ""
}

// lockedSiteG looks for a goroutine that waits for a sync.Mutex / sync.RWMutex which the service's own code asked
// for (the frame right above the lock call is the service's): in a process that has been at a standstill for
// minutes of real time nobody is going to release it - a lock left held on some path (an early return between Lock
// and Unlock). Waiting on channels is not judged: idle handler goroutines do that all day.
func lockedSiteG(dump string) (string, string) {
	for _, b := range strings.Split(dump, "\n\n") {
		lines := strings.Split(strings.TrimSpace(b), "\n")
		if len(lines) < 2 || !(strings.Contains(lines[0], "[sync.Mutex.Lock") || strings.Contains(lines[0], "[sync.RWMutex.")) {
			continue
		}
		for _, l := range lines[1:] {
			if strings.HasPrefix(l, "\t") || strings.HasPrefix(l, "internal/") || strings.HasPrefix(l, "sync.") || strings.HasPrefix(l, "runtime.") {
				continue
			}
			if !strings.Contains(l, "block-headers-service/") || strings.Contains(l, "/verifsim") {
				break // the lock was asked for by a dependency or by the harness: not judged
			}
			fn := l[strings.LastIndex(l, "block-headers-service/")+len("block-headers-service/"):]
			if k := strings.LastIndex(fn, "("); k > 0 {
				fn = fn[:k]
			}
			return fn, strings.SplitN(lines[0], " [", 2)[0]
		}
	}
	return "", ""
}

func execute(e *Engine, prop, tier string, seed uint64, t *Tape, opt map[string]string) (res *Result) {
	execSeed.Store(seed)
	execTape.Store(t)
	execStart.Store(time.Now().UnixNano())
	defer execStart.Store(0)
	r := &Run{Prop: prop, Tier: tier, Seed: seed, T: t, Stats: map[string]int{}, Cfg: map[string]any{}, Opt: opt}
	execRun.Store(r)
	res = &Result{Seed: seed}
	finish := func() {
		res.Tape = t.Out
		res.Labels = t.Lbl
		res.Trace = r.Trace
		res.Stats = r.Stats
		res.Steps = r.Step
		res.SimTime = r.SimTime
		res.Nontrivial = r.Nontrivial
		res.Cfg = r.Cfg
		res.SubRuns = r.SubRuns
		res.Digest = digestLines(r.Trace)
		if r.Shape != nil {
			res.ShapeDig = digestLines(r.Shape)
		} else {
			res.ShapeDig = res.Digest
		}
	}
	body := func() {
		defer func() {
			if p := recover(); p != nil {
				switch x := p.(type) {
				case violationPanic:
					res.Viol = x.v
					r.Logf("VIOLATION %s", x.v.Sig) // the message may carry measured values (bytes allocated); it stays out of the event log
				case HarnessError:
					res.HarnessErr = x.Msg
				default:
					// a panic that escaped the engine's own guards is harness trouble unless the
					// engine converted it; engines wrap calls into the system with guard().
					res.HarnessErr = fmt.Sprintf("panic in harness: %v\n%s", p, debug.Stack())
				}
			}
		}()
		e.Exec(r)
	}
	raceBefore := raceLogSize()
	if e.Bubble {
		runInBubble(body)
	} else {
		body()
	}
	// (a race report takes precedence over another violation of the same run: the detector reports a pair of stacks
	// once per process, it would be lost for good)
	if rep := raceLogSince(raceBefore); rep != "" && res.HarnessErr == "" {
		// several races may be reported in one run, in an order that varies: all signatures are kept
		seen := map[string]bool{}
		first := ""
		for _, blk := range strings.Split(rep, "WARNING: DATA RACE") {
			if !strings.Contains(blk, " at 0x") {
				continue
			}
			sig := r.Prop + "|data-race|" + raceSites(blk)
			if !seen[sig] {
				seen[sig] = true
				res.RaceSigs = append(res.RaceSigs, sig)
				if first == "" {
					first = blk
				}
			}
		}
		sort.Strings(res.RaceSigs)
		if len(res.RaceSigs) > 0 {
			res.Viol = &Violation{Prop: r.Prop, Class: "data-race", Sig: res.RaceSigs[0], Msg: "the race detector reported (first of " + fmt.Sprint(len(res.RaceSigs)) + " distinct reports):\nWARNING: DATA RACE" + truncateStr(first, 2500), Step: r.Step}
			r.Logf("VIOLATION data-race")
		}
	}
	finish()
	return res
}

// guard calls f (a call into the system under test) and converts a panic into (panicked, value, stack).
func guard(f func()) (panicked bool, val any, stack string) {
	defer func() {
		if p := recover(); p != nil {
			if _, ok := p.(violationPanic); ok {
				panic(p)
			}
			if _, ok := p.(HarnessError); ok {
				panic(p)
			}
			panicked, val, stack = true, p, string(debug.Stack())
		}
	}()
	f()
	return
}

// panicSite extracts the first repo frame of a panic stack (used in violation signatures).
func panicSite(stack string) string {
	lines := strings.Split(stack, "\n")
	seenPanic := false
	for i := 0; i < len(lines); i++ {
		l := lines[i]
		if strings.HasPrefix(l, "panic(") {
			seenPanic = true
			continue
		}
		if !seenPanic {
			continue
		}
		if strings.Contains(l, "block-headers-service/") && !strings.Contains(l, "/verifsim") && !strings.HasPrefix(l, "\t") {
			fn := l
			if k := strings.LastIndex(fn, "("); k > 0 {
				fn = fn[:k]
			}
			if k := strings.LastIndex(fn, "block-headers-service/"); k >= 0 {
				fn = fn[k+len("block-headers-service/"):]
			}
			return fn
		}
	}
	return "unknown"
}

func sortedKeys(m map[string]int) []string {
	ks := make([]string, 0, len(m))
	for k := range m {
		ks = append(ks, k)
	}
	sort.Strings(ks)
	return ks
}

// ---------------------------------------------------------------------------------------------
// race detector reports (only in -race builds started with GORACE=log_path=...)

func raceLogFiles() []string {
	g := os.Getenv("GORACE")
	for _, f := range strings.Fields(g) {
		if strings.HasPrefix(f, "log_path=") {
			m, _ := filepath.Glob(strings.TrimPrefix(f, "log_path=") + ".*")
			sort.Strings(m)
			return m
		}
	}
	return nil
}

func raceLogSize() int64 {
	var n int64
	for _, f := range raceLogFiles() {
		if st, err := os.Stat(f); err == nil {
			n += st.Size()
		}
	}
	return n
}

func raceLogSince(before int64) string {
	var all []byte
	for _, f := range raceLogFiles() {
		b, _ := os.ReadFile(f)
		all = append(all, b...)
	}
	if int64(len(all)) <= before {
		return ""
	}
	return string(all[before:])
}

// raceSites names the two conflicting accesses by their first frames inside the repository.
func raceSites(rep string) string {
	var sites []string
	lines := strings.Split(rep, "\n")
	inAccess := false
	for _, l := range lines {
		t := strings.TrimSpace(l)
		if strings.HasPrefix(t, "Read at") || strings.HasPrefix(t, "Write at") || strings.HasPrefix(t, "Previous read at") || strings.HasPrefix(t, "Previous write at") {
			inAccess = true
			continue
		}
		if t == "" {
			inAccess = false
			continue
		}
		if inAccess && strings.Contains(t, "block-headers-service/") && !strings.Contains(t, "verifsim") && strings.HasSuffix(t, ")") {
			fn := t
			if k := strings.LastIndex(fn, "block-headers-service/"); k >= 0 {
				fn = fn[k+len("block-headers-service/"):]
			}
			if k := strings.Index(fn, "("); k > 0 && !strings.HasPrefix(fn[k:], "(*") {
				fn = fn[:k]
			}
			// which of several racing methods of two types is reported first varies from run to run: the
			// signature names the two receiver types, not the methods
			if k := strings.Index(fn, ")."); k > 0 && strings.Contains(fn, "(*") {
				fn = fn[:k+1]
			}
			sites = append(sites, fn)
			inAccess = false
		}
		if len(sites) == 2 {
			break
		}
	}
	sort.Strings(sites)
	if len(sites) == 0 {
		return "unknown-site"
	}
	return strings.Join(sites, "<->")
}

func truncateStr(s string, n int) string {
	if len(s) > n {
		return s[:n] + "..."
	}
	return s
}
