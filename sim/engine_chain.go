package verifsim

// chainsim: seeded submission histories (+ restarts) through service.Chains.Add over the real SQL stack,
// compared after every step with the executable model. Serves C01 and C03.

func init() {
	register(&Engine{Name: "chainsim", Props: []string{"C01", "C03"}, Exec: chainsimExec})
}

func chainsimExec(r *Run) {
	w := NewWorld(r)
	defer w.Destroy()
	w.Open()
	h := NewHist(r, w)
	cap := 0
	if r.Tier == "quick" {
		cap = 30
	}
	h.DrawCfg(cap)
	for i := 0; h.StepOp(i); i++ {
	}
	// now and then a reorganisation whose size sits on a boundary (64 .. 1025 promoted headers)
	den := 150
	if r.Tier == "thorough" {
		den = 40
	}
	h.MaybeBigReorg(den)
	// end of history: final restart + full check (durability of what was acknowledged)
	if r.T.Chance(1, 3, "final-restart") {
		h.Restart()
	}
	r.Shape = h.ShapeLines()
	switch r.Prop {
	case "C03":
		// a restart and a label change after some observed header was stored
		r.Nontrivial = h.nRestart >= 1 && h.nLabelChange >= 1
	default:
		r.Nontrivial = h.nFork >= 1 && (h.nLabelChange >= 1 || h.nOrphan >= 1 || h.nTie >= 1)
	}
}
