package verifsim

import (
	"bytes"
	"crypto/sha256"
	"encoding/binary"
	"encoding/json"
	"fmt"
	"math/big"
	"net/http"
	"net/http/httptest"
	"sort"
	"strings"
	"time"

	"github.com/bitcoin-sv/block-headers-service/domains"
	"github.com/bitcoin-sv/block-headers-service/internal/chaincfg"
	"github.com/bitcoin-sv/block-headers-service/internal/chaincfg/chainhash"
)

// mainnet genesis as the model sees it (field values from the published genesis block, not from the repo code).
func genesisRaw() RawHeader {
	var merkle Hash32
	mr := chaincfg.MainNetParams.GenesisBlock.Header.MerkleRoot
	copy(merkle[:], mr[:])
	return RawHeader{Version: 1, Prev: Hash32{}, Merkle: merkle, Time: 1231006505, Bits: 0x1d00ffff, Nonce: 2083236893}
}

// HTTP issues one request against the production gin engine.
func (w *World) HTTP(method, path string, body []byte, hdr map[string]string) (int, []byte) {
	var rd *bytes.Reader
	if body != nil {
		rd = bytes.NewReader(body)
	} else {
		rd = bytes.NewReader(nil)
	}
	req, err := http.NewRequest(method, path, rd)
	if err != nil {
		Infra("http.NewRequest %s %q: %v", method, path, err)
	}
	for k, v := range hdr {
		req.Header.Set(k, v)
	}
	if body != nil && req.Header.Get("Content-Type") == "" {
		req.Header.Set("Content-Type", "application/json")
	}
	rec := httptest.NewRecorder()
	w.Gin.ServeHTTP(rec, req)
	return rec.Code, rec.Body.Bytes()
}

// ---------------------------------------------------------------------------------------------

type HistCfg struct {
	MaxOps     int
	Palette    string // uniform | mixed | wild
	ZeroWork   bool   // zero / negative / overflow targets allowed
	Extremes   bool   // field extremes
	WForkDeep  int
	WStaleExt  int
	WRandom    int
	WUnknown   int
	WOrphanExt int
	WPending   int
	PDefer     int // per cent
	PDup       int
	PForbidden int
	PRestart   int
	HeavyFork  int // per cent: sibling with much more work
	DupMerkle  int // per cent: reuse the merkle root of a known header (C02 only)
}

// Hist drives one ingestion history against the world and the model, comparing after every step.
type Hist struct {
	r       *Run
	w       *World
	m       *Model
	cfg     HistCfg
	pending []RawHeader
	ctr     uint32
	baseTs  uint32
	acked   map[Hash32]bool
	forb    []RawHeader // forbidden headers generated so far
	// statistics for the non-triviality rule
	nFork, nLabelChange, nOrphan, nTie, nRestart, nDup, nForb int
	lastLabels                                                map[Hash32]string
	// Submit hook (crashsim/notifysim replace the plain call)
	AddFn func(src domains.BlockHeaderSource) (*domains.BlockHeader, error)
	// OnStored is called for every header the model says was stored.
	OnStored func(h *MHeader)
	// SoftChecks / Deferred: see CheckStore.
	SoftChecks bool
	Deferred   *Violation
	// OnSubmit sees every submission (crashsim records H with it).
	OnSubmit func(raw RawHeader)
	// SkipChecks disables the per-step full comparison (engines that check at their own points).
	SkipChecks bool
	palette    []uint32
}

func NewHist(r *Run, w *World) *Hist {
	h := &Hist{r: r, w: w, m: NewModel(genesisRaw()), acked: map[Hash32]bool{}, lastLabels: map[Hash32]string{}}
	h.baseTs = 1600000000
	return h
}

var (
	bitsNormal = []uint32{0x207fffff, 0x203fffff, 0x201fffff, 0x1f7fffff, 0x1d00ffff, 0x1c00ffff, 0x1b0404cb}
	bitsZero   = []uint32{0x00000000, 0x01003456, 0x04923456, 0xff7fffff, 0x00800000, 0x02008000, 0x21010000}
	bitsHuge   = []uint32{0x01010000, 0x03000001, 0x0300ffff}
)

// DrawCfg draws the swarm configuration of the run.
func (h *Hist) DrawCfg(maxOpsCap int) {
	t := h.r.T
	c := &h.cfg
	// history length: geometric, mostly short
	switch t.Pick([]int{50, 30, 15, 5}, "len-class") {
	case 0:
		c.MaxOps = t.Range(3, 8, "len")
	case 1:
		c.MaxOps = t.Range(6, 14, "len")
	case 2:
		c.MaxOps = t.Range(10, 30, "len")
	default:
		c.MaxOps = t.Range(20, 60, "len")
	}
	if maxOpsCap > 0 && c.MaxOps > maxOpsCap {
		c.MaxOps = maxOpsCap
	}
	c.Palette = []string{"uniform", "mixed", "wild"}[t.Pick([]int{40, 45, 15}, "palette")]
	c.ZeroWork = t.Chance(1, 6, "zero-work")
	if h.r.Opt["nozero"] == "1" {
		c.ZeroWork = false
	}
	c.Extremes = t.Chance(1, 3, "extremes")
	c.WForkDeep = t.Range(0, 30, "w-fork")
	c.WStaleExt = t.Range(0, 40, "w-stale")
	c.WRandom = t.Range(0, 15, "w-random")
	c.WUnknown = t.Range(0, 10, "w-unknown")
	c.WOrphanExt = t.Range(0, 10, "w-orphan")
	c.WPending = t.Range(0, 10, "w-pending")
	c.PDefer = t.Range(0, 20, "p-defer")
	c.PDup = t.Range(0, 15, "p-dup")
	c.PForbidden = t.Range(0, 8, "p-forb")
	c.PRestart = t.Range(0, 8, "p-restart")
	c.HeavyFork = t.Range(0, 40, "p-heavy")
	if h.r.Prop == "C02" {
		c.DupMerkle = t.Range(0, 25, "p-dup-merkle")
	}
	switch c.Palette {
	case "uniform":
		h.palette = []uint32{bitsNormal[t.Draw(len(bitsNormal), "bits0")]}
	case "mixed":
		h.palette = bitsNormal
	default:
		h.palette = nil
	}
	h.r.Cfg["hist"] = *c
}

func (h *Hist) drawBits() uint32 {
	t := h.r.T
	if h.cfg.ZeroWork && t.Chance(1, 5, "zero-bits") {
		return bitsZero[t.Draw(len(bitsZero), "zero-idx")]
	}
	if h.palette == nil {
		if t.Chance(1, 4, "huge-bits") {
			return bitsHuge[t.Draw(len(bitsHuge), "huge-idx")]
		}
		if t.Chance(1, 2, "rand-bits") {
			b := t.U32("bits")
			if !h.cfg.ZeroWork && specWork(b).Sign() == 0 {
				return bitsNormal[0]
			}
			return b
		}
		return bitsNormal[t.Draw(len(bitsNormal), "bits-idx")]
	}
	return h.palette[t.Draw(len(h.palette), "bits-idx")]
}

func (h *Hist) uniqueHash(tag string) Hash32 {
	h.ctr++
	return seedHash(h.r.Seed, h.ctr, tag)
}

// seedHash derives a 32-byte value from (run seed, counter, tag): cheap on the tape, unique per run.
func seedHash(seed uint64, ctr uint32, tag string) Hash32 {
	var b [16]byte
	binary.LittleEndian.PutUint64(b[:8], seed)
	binary.LittleEndian.PutUint32(b[8:12], ctr)
	return sha256.Sum256(append(b[:], tag...))
}

// knownNonOrphan etc. give deterministic (arrival-ordered) candidate lists.
func (h *Hist) filter(pred func(*MHeader) bool) []*MHeader {
	var out []*MHeader
	for _, x := range h.m.Headers {
		if pred(x) {
			out = append(out, x)
		}
	}
	return out
}

// NewHeader generates a header; the parent choice is the heart of the workload.
func (h *Hist) NewHeader() RawHeader {
	t := h.r.T
	c := &h.cfg
	best := h.m.Best()
	var prev Hash32
	heavy := false
	kind := t.Pick([]int{50, c.WStaleExt, c.WForkDeep, c.WRandom, c.WUnknown, c.WOrphanExt, c.WPending}, "parent-kind")
	switch kind {
	case 0:
		prev = best.Hash
	case 1: // extend a stale leaf (the way reorganisations are made)
		leaves := h.filter(func(x *MHeader) bool {
			return x.Label == LStale && !h.m.HasStoredChild(x, func(*MHeader) bool { return true })
		})
		if len(leaves) == 0 {
			prev = best.Hash
		} else {
			prev = leaves[t.Draw(len(leaves), "stale-leaf")].Hash
			heavy = t.Chance(c.HeavyFork, 100, "heavy")
		}
	case 2: // fork off the longest chain at depth 1..6
		lc := h.m.LongestChain()
		d := t.Range(1, 6, "fork-depth")
		i := len(lc) - 1 - d
		if i < 0 {
			i = 0
		}
		prev = lc[i].Hash
		heavy = t.Chance(c.HeavyFork, 100, "heavy")
	case 3:
		prev = h.m.Headers[t.Draw(len(h.m.Headers), "any-known")].Hash
	case 4:
		prev = h.uniqueHash("unknown-parent")
	case 5:
		orph := h.filter(func(x *MHeader) bool { return x.Label == LOrphan })
		if len(orph) == 0 {
			prev = h.uniqueHash("unknown-parent")
		} else {
			prev = orph[t.Draw(len(orph), "orphan")].Hash
		}
	case 6:
		if len(h.pending) == 0 {
			prev = best.Hash
		} else {
			p := h.pending[t.Draw(len(h.pending), "pending-parent")]
			prev = p.Hash()
		}
	}
	raw := RawHeader{Prev: prev, Merkle: h.uniqueHash("merkle"), Version: 0x20000000, Bits: h.drawBits()}
	if heavy {
		raw.Bits = bitsHuge[t.Draw(len(bitsHuge), "heavy-bits")]
	}
	raw.Time = h.baseTs + h.ctr*600
	raw.Nonce = h.ctr
	if c.DupMerkle > 0 && t.Chance(c.DupMerkle, 100, "dup-merkle") {
		raw.Merkle = h.m.Headers[t.Draw(len(h.m.Headers), "dup-merkle-of")].Raw.Merkle
	}
	if c.Extremes {
		switch t.Pick([]int{70, 6, 6, 6, 6, 6}, "extreme") {
		case 1:
			raw.Version = -2147483648
		case 2:
			raw.Version = -1
			raw.Nonce = 0xffffffff
		case 3:
			raw.Time = []uint32{0, 1, 0x7fffffff, 0x80000000, 0xffffffff, 86399}[t.Draw(6, "ts")]
		case 4:
			raw.Nonce = t.U32("nonce")
			raw.Version = int32(t.U32("version"))
		case 5:
			raw.Time = t.U32("time")
		}
	}
	return raw
}

func toSource(raw RawHeader) domains.BlockHeaderSource {
	return domains.BlockHeaderSource{
		Version:    raw.Version,
		PrevBlock:  chainhash.Hash(raw.Prev),
		MerkleRoot: chainhash.Hash(raw.Merkle),
		Timestamp:  time.Unix(int64(raw.Time), 0),
		Bits:       raw.Bits,
		Nonce:      raw.Nonce,
	}
}

func short(h Hash32) string { return h.String()[:8] }

// answerClass classifies what Chains.Add answered.
func answerClass(hdr *domains.BlockHeader, err error) string {
	switch {
	case err == nil && hdr != nil:
		return OutStored
	case err != nil && strings.Contains(err.Error(), "HeaderAlreadyExists"):
		return OutDuplicate
	case err != nil && strings.Contains(err.Error(), "BlockRejected"):
		return OutForbidden
	case err != nil:
		return "error:" + strings.SplitN(err.Error(), ":", 2)[0]
	}
	return "nil-nil"
}

// Submit applies one submission to service and model and compares the answers.
func (h *Hist) Submit(raw RawHeader, what string) {
	r := h.r
	r.Step++
	if h.OnSubmit != nil {
		h.OnSubmit(raw)
	}
	hash := raw.Hash()
	bestBefore := h.m.Best()
	parentWasBest := bestBefore.Hash == raw.Prev
	before := map[Hash32]string{}
	for _, x := range h.m.Headers {
		before[x.Hash] = x.Label
	}
	exp, mh := h.m.Submit(raw)
	var got *domains.BlockHeader
	var err error
	add := h.AddFn
	if add == nil {
		add = h.w.Svc.Chains.Add
	}
	pan, pv, stack := guard(func() { got, err = add(toSource(raw)) })
	r.Logf("submit %s %s prev=%s bits=%08x -> model=%s", what, short(hash), short(raw.Prev), raw.Bits, exp)
	if pan {
		site := panicSite(stack)
		r.Fail("C01", "panic", "Chains.Add@"+site, "Chains.Add panicked on %s (model expects %s): %v", short(hash), exp, pv)
	}
	cls := answerClass(got, err)
	if cls != exp {
		shape := h.submissionShape(mh, raw, parentWasBest, exp)
		v := r.Try(func() {
			r.Fail("C01", "answer", shape+"|got="+cls, "Chains.Add(%s) answered %s (err=%v), model expects %s", short(hash), cls, err, exp)
		})
		if !h.SoftChecks || r.Prop == "C01" {
			panic(violationPanic{v})
		}
		if h.Deferred == nil {
			h.Deferred = v
		}
		if exp == OutStored && got == nil {
			return // nothing was stored; the model keeps its view, the focus oracles will tell
		}
	}
	switch exp {
	case OutStored:
		h.acked[hash] = true
		if got != nil && got.Hash.String() != hash.String() {
			r.Fail("C03", "hash", "returned-hash", "Add returned hash %s, double-SHA256 of the 80 bytes is %s", got.Hash.String(), hash.String())
		}
		if mh.Label == LOrphan {
			h.nOrphan++
			r.Probe("orphan")
			if mh.Parent != nil {
				r.Probe("orphan-chain>=2")
			}
		}
		if mh.Parent != nil && h.m.HasStoredChild(mh.Parent, func(c *MHeader) bool { return c != mh }) {
			h.nFork++
		}
		changed := 0
		for _, x := range h.m.Headers {
			if b, ok := before[x.Hash]; ok && b != x.Label {
				changed++
			}
		}
		if changed > 0 {
			h.nLabelChange++
			r.Probe("reorg")
			if changed >= 4 {
				r.Probe("reorg-depth>=2")
			}
		}
		if mh.Label != LOrphan && mh.Cum.Cmp(bestBefore.Cum) == 0 {
			h.nTie++
			r.Probe("equal-work-tie")
		}
		if mh.Work.Sign() == 0 {
			r.Probe("zero-work-header")
		}
		if mh.Label == LLongest && !parentWasBest && mh.Parent != nil && before[mh.Parent.Hash] == LLongest {
			r.Probe("heavier-sibling-of-longest")
		}
		if h.OnStored != nil {
			h.OnStored(mh)
		}
	case OutDuplicate:
		h.nDup++
	case OutForbidden:
		h.nForb++
	}
	if !h.SkipChecks {
		h.CheckStore(h.submissionShape(mh, raw, parentWasBest, exp))
	}
}

// submissionShape names the history shape of the last submission; it is what violation signatures key on.
func (h *Hist) submissionShape(mh *MHeader, raw RawHeader, parentWasBest bool, exp string) string {
	if exp != OutStored || mh == nil {
		return "last=" + exp
	}
	var parts []string
	switch {
	case mh.Label == LOrphan && mh.Parent == nil:
		parts = append(parts, "parent=unknown")
	case mh.Label == LOrphan:
		parts = append(parts, "parent=orphan")
	case parentWasBest:
		parts = append(parts, "parent=tip")
	default:
		parts = append(parts, "parent=non-tip")
	}
	if mh.Work.Sign() == 0 {
		parts = append(parts, "zero-work")
	}
	parts = append(parts, "new="+mh.Label)
	return strings.Join(parts, ",")
}

func parseDBTime(s string) (int64, bool) {
	for _, layout := range []string{
		"2006-01-02 15:04:05.999999999-07:00",
		"2006-01-02T15:04:05.999999999-07:00",
		"2006-01-02 15:04:05.999999999",
		"2006-01-02T15:04:05.999999999",
		"2006-01-02 15:04:05",
		"2006-01-02T15:04:05",
		"2006-01-02 15:04",
		"2006-01-02T15:04",
		"2006-01-02",
	} {
		s2 := strings.TrimSuffix(s, "Z")
		if tm, err := time.ParseInLocation(layout, s2, time.UTC); err == nil {
			return tm.Unix(), true
		}
	}
	return 0, false
}

// CheckStore compares the headers table row for row with the model, then the service's and the API's view.
func (h *Hist) CheckStore(shape string) {
	r, w, m := h.r, h.w, h.m
	rows := w.Snapshot()
	presence := func() {
		// --- C03 disappearance / invention
		for _, x := range m.Headers {
			if _, ok := rows[x.HashStr()]; !ok {
				prop := "C03"
				r.Fail(prop, "missing-row", shape, "header %s (arrival %d) is not in the headers table", short(x.Hash), x.Arrival)
			}
		}
		if len(rows) != len(m.Headers) {
			for k := range rows {
				found := false
				for _, x := range m.Headers {
					if x.HashStr() == k {
						found = true
					}
				}
				if !found {
					prop := "C01"
					var hh Hash32
					for _, f := range h.forb {
						if f.Hash().String() == k {
							prop, hh = "C07", f.Hash()
						}
					}
					_ = hh
					r.Fail(prop, "extra-row", shape, "headers table holds %s which the model never stored", k[:8])
				}
			}
		}
	}
	fields := func() {
		// --- per-row fields
		for _, x := range m.Headers {
			row := rows[x.HashStr()]
			if row.Height != int64(x.Height) {
				r.Fail("C03", "height", shape, "%s height=%d, model %d", short(x.Hash), row.Height, x.Height)
			}
			if row.Chainwork != x.Work.String() {
				r.Fail("C03", "work", fmt.Sprintf("bits=%08x", x.Raw.Bits), "%s chainwork=%s, spec %s (bits %08x)", short(x.Hash), row.Chainwork, x.Work, x.Raw.Bits)
			}
			if row.Cumulated != x.Cum.String() {
				r.Fail("C03", "cumulated-work", shape, "%s cumulated_work=%s, model %s", short(x.Hash), row.Cumulated, x.Cum)
			}
			if row.Prev != x.Raw.Prev.String() || row.Merkle != x.Raw.Merkle.String() || row.Version != int64(x.Raw.Version) ||
				row.Nonce != int64(x.Raw.Nonce) || row.Bits != int64(x.Raw.Bits) {
				r.Fail("C03", "field", shape, "%s stored fields differ from the submitted ones: row=%+v raw=%+v", short(x.Hash), row, x.Raw)
			}
			if ts, ok := parseDBTime(row.Timestamp); !ok || ts != int64(x.Raw.Time) {
				r.Fail("C03", "timestamp", fmt.Sprintf("tz=%s", time.Local.String()), "%s stored timestamp %q != submitted %d", short(x.Hash), row.Timestamp, x.Raw.Time)
			}
		}
	}
	labels := func() {
		// --- C01 labels
		for _, x := range m.Headers {
			row := rows[x.HashStr()]
			if row.State != x.Label {
				r.Fail("C01", "label", shape, "%s (height %d, arrival %d) is %s, model says %s; model tip %s", short(x.Hash), x.Height, x.Arrival, row.State, x.Label, short(m.Best().Hash))
			}
		}
	}
	views := func() {
		// --- service view
		best := m.Best()
		var tip *domains.BlockHeader
		if pan, pv, st := guard(func() { tip = w.Svc.Headers.GetTip() }); pan {
			r.Fail("C01", "panic", "GetTip@"+panicSite(st), "GetTip panicked: %v", pv)
		}
		if tip == nil {
			r.Fail("C01", "tip", shape+"|nil", "GetTip returned nil, model tip %s", short(best.Hash))
		}
		if tip.Hash.String() != best.HashStr() {
			r.Fail("C01", "tip", shape, "GetTip=%s (h=%d, %s) but model tip=%s (h=%d)", tip.Hash.String()[:8], tip.Height, tip.State, short(best.Hash), best.Height)
		}
		// the header just touched + one drawn header through GetHeaderByHash and the HTTP API
		probe := m.Headers[len(m.Headers)-1]
		h.checkHeaderViews(probe, shape)
		if len(m.Headers) > 2 {
			h.checkHeaderViews(m.Headers[h.r.T.Draw(len(m.Headers), "view-probe")], shape)
		}
		// tip/longest over HTTP
		code, body := w.HTTP("GET", "/api/v1/chain/tip/longest", nil, nil)
		var ts struct {
			Header struct {
				Hash string `json:"hash"`
			} `json:"header"`
			State     string      `json:"state"`
			ChainWork json.Number `json:"chainWork"`
			Height    int32       `json:"height"`
		}
		if code != 200 || json.Unmarshal(body, &ts) != nil {
			r.Fail("C01", "http-tip", shape, "GET tip/longest -> %d %s", code, string(body))
		}
		if ts.Header.Hash != best.HashStr() || ts.State != LLongest || ts.Height != best.Height || ts.ChainWork.String() != best.Cum.String() {
			r.Fail("C01", "http-tip", shape, "GET tip/longest = %s, model tip %s h=%d cum=%s", string(body), short(best.Hash), best.Height, best.Cum)
		}
	}
	// the oracle blocks are independent; a defect that breaks several properties is reported under the focus one
	if h.SoftChecks {
		// engines whose focus is another property go on after a store/model mismatch, so that their own oracles get
		// to judge the consequences; the mismatch is reported at the end of the run if nothing of the focus
		// property was found
		if v := r.Try(func() { r.FailFirstOf(presence, fields, labels, views) }); v != nil {
			if v.Prop == r.Prop {
				panic(violationPanic{v})
			}
			if h.Deferred == nil {
				h.Deferred = v
			}
		}
		return
	}
	r.FailFirstOf(presence, fields, labels, views)
}

func (h *Hist) checkHeaderViews(x *MHeader, shape string) {
	r, w := h.r, h.w
	bh, err := w.Svc.Headers.GetHeaderByHash(x.HashStr())
	if err != nil || bh == nil {
		r.Fail("C03", "get-by-hash", shape, "GetHeaderByHash(%s) failed: %v", short(x.Hash), err)
	}
	if bh.Hash.String() != x.HashStr() || bh.Version != x.Raw.Version || bh.PreviousBlock.String() != x.Raw.Prev.String() ||
		bh.MerkleRoot.String() != x.Raw.Merkle.String() || bh.Timestamp.Unix() != int64(x.Raw.Time) || bh.Bits != x.Raw.Bits ||
		bh.Nonce != x.Raw.Nonce || bh.Height != x.Height || bh.Chainwork.Cmp(x.Work) != 0 || bh.CumulatedWork.Cmp(x.Cum) != 0 {
		r.Fail("C03", "service-fields", shape, "GetHeaderByHash(%s) = %+v differs from submitted %+v / model h=%d", short(x.Hash), *bh, x.Raw, x.Height)
	}
	if string(bh.State) != x.Label {
		r.Fail("C01", "service-label", shape, "GetHeaderByHash(%s).State=%s, model %s", short(x.Hash), bh.State, x.Label)
	}
	code, body := w.HTTP("GET", "/api/v1/chain/header/state/"+x.HashStr(), nil, nil)
	var st struct {
		Header struct {
			Hash    string `json:"hash"`
			Version int32  `json:"version"`
			Prev    string `json:"prevBlockHash"`
			Merkle  string `json:"merkleRoot"`
			Ts      uint32 `json:"creationTimestamp"`
			Bits    uint32 `json:"difficultyTarget"`
			Nonce   uint32 `json:"nonce"`
			Work    string `json:"work"`
		} `json:"header"`
		State     string `json:"state"`
		ChainWork string `json:"chainWork"`
		Height    int32  `json:"height"`
	}
	if code != 200 || json.Unmarshal(body, &st) != nil {
		r.Fail("C03", "http-state", shape, "GET header/state/%s -> %d %s", short(x.Hash), code, string(body))
	}
	hd := st.Header
	if hd.Hash != x.HashStr() || hd.Version != x.Raw.Version || hd.Prev != x.Raw.Prev.String() || hd.Merkle != x.Raw.Merkle.String() ||
		hd.Ts != x.Raw.Time || hd.Bits != x.Raw.Bits || hd.Nonce != x.Raw.Nonce || hd.Work != x.Work.String() ||
		st.ChainWork != x.Cum.String() || st.Height != x.Height {
		r.Fail("C03", "http-fields", shape, "GET header/state/%s = %s differs from submitted %+v", short(x.Hash), string(body), x.Raw)
	}
	if st.State != x.Label {
		r.Fail("C01", "http-label", shape, "GET header/state/%s state=%s, model %s", short(x.Hash), st.State, x.Label)
	}
}

// Restart closes the process generation and starts a new one on the same file; nothing may change.
func (h *Hist) Restart() {
	r, w := h.r, h.w
	r.Step++
	before := w.TableDigest("headers")
	w.Restart()
	after := w.TableDigest("headers")
	h.nRestart++
	r.Fault("restart")
	r.Logf("restart")
	if before != after {
		r.Fail("C05", "restart-modified", "plain-restart", "restart on an existing database modified the headers table")
	}
	if !h.SkipChecks {
		h.CheckStore("after-restart")
	}
}

// StepOp performs one generated operation; returns false when the history is over.
func (h *Hist) StepOp(i int) bool {
	t := h.r.T
	c := &h.cfg
	if i >= c.MaxOps {
		return false
	}
	if !t.Chance(19, 20, "more") && i >= 2 { // "one more op?" precedes each op so that deleting tape spans deletes ops
		return false
	}
	op := t.Pick([]int{100, boolInt(len(h.pending) > 0) * 15, c.PDup, c.PForbidden, c.PRestart}, "op")
	switch op {
	case 0:
		raw := h.NewHeader()
		if t.Chance(c.PDefer, 100, "defer") {
			h.pending = append(h.pending, raw)
			h.r.Logf("defer %s prev=%s", short(raw.Hash()), short(raw.Prev))
		} else {
			h.Submit(raw, "new")
		}
	case 1:
		k := t.Draw(len(h.pending), "pending-idx")
		raw := h.pending[k]
		h.pending = append(h.pending[:k], h.pending[k+1:]...)
		h.Submit(raw, "late")
	case 2:
		x := h.m.Headers[t.Draw(len(h.m.Headers), "dup-idx")]
		h.Submit(x.Raw, "dup")
	case 3:
		if len(h.forb) > 0 && t.Chance(1, 2, "forb-again") {
			h.Submit(h.forb[t.Draw(len(h.forb), "forb-idx")], "forbidden-again")
		} else {
			raw := h.NewHeader()
			hh := raw.Hash()
			if _, known := h.m.ByHash[hh]; !known {
				h.m.Forbidden[hh] = true
				ch := chainhash.Hash(hh)
				chaincfg.MainNetParams.HeadersToIgnore = append(chaincfg.MainNetParams.HeadersToIgnore, &ch)
				h.forb = append(h.forb, raw)
				// a child of the forbidden header is queued so that its descendants are exercised too
				child := RawHeader{Prev: hh, Merkle: h.uniqueHash("merkle"), Version: 1, Bits: h.drawBits(), Time: h.baseTs + h.ctr*600, Nonce: h.ctr}
				h.pending = append(h.pending, child)
			}
			h.Submit(raw, "forbidden")
		}
	case 4:
		h.Restart()
	}
	return true
}

// ExtendBest appends n plain headers to the best chain without the per-step full comparison (long-chain classes).
func (h *Hist) ExtendBest(n int) {
	skip := h.SkipChecks
	h.SkipChecks = true
	for i := 0; i < n; i++ {
		raw := RawHeader{Prev: h.m.Best().Hash, Merkle: h.uniqueHash("merkle"), Version: 0x20000000, Bits: bitsNormal[0]}
		raw.Time = h.baseTs + h.ctr*600
		raw.Nonce = h.ctr
		h.Submit(raw, "extend")
	}
	h.SkipChecks = skip
}

// BigReorg is a directed history around a size boundary: a heavy header H on top of the current best; from H's parent
// a side branch of n light headers (all STALE while H leads); then one header heavy enough to overtake. The
// reorganisation then promotes exactly n stored stale headers (and demotes one) in one go: batch sizes, statement
// parameter limits and portioned updates meet their boundaries here and nowhere else.
func (h *Hist) BigReorg(n int) {
	skip := h.SkipChecks
	h.SkipChecks = true
	base := h.m.Best()
	mk := func(prev Hash32, bits uint32) RawHeader {
		raw := RawHeader{Prev: prev, Merkle: h.uniqueHash("merkle"), Version: 0x20000000, Bits: bits}
		raw.Time = h.baseTs + h.ctr*600
		raw.Nonce = h.ctr
		return raw
	}
	h.Submit(mk(base.Hash, 0x1c00ffff), "big-main")
	prev := base.Hash
	for i := 0; i < n; i++ {
		raw := mk(prev, 0x207fffff)
		h.Submit(raw, "big-side")
		prev = raw.Hash()
	}
	h.SkipChecks = skip
	h.r.Probe("big-reorg")
	h.Submit(mk(prev, 0x1b0404cb), "big-overtake")
}

// bigReorgSizes: lengths around the usual batch and parameter boundaries.
var bigReorgSizes = []int{63, 64, 65, 99, 100, 101, 127, 128, 129, 249, 250, 251, 255, 256, 257, 499, 500, 501, 511, 512, 513, 999, 1000, 1001, 1023, 1024, 1025}

// MaybeBigReorg runs BigReorg in one run out of den, with a drawn boundary size (small ones more often).
func (h *Hist) MaybeBigReorg(den int) bool {
	t := h.r.T
	if h.r.Opt["bigreorg"] != "1" && !t.Chance(1, den, "big-reorg") {
		return false
	}
	// three size bands, the cheap one most often
	band := t.Pick([]int{50, 35, 15}, "big-reorg-band")
	lo, hi := []int{0, 9, 18}[band], []int{9, 21, 27}[band]
	n := bigReorgSizes[lo+t.Draw(hi-lo, "big-reorg-size")]
	h.r.Cfg["big_reorg"] = n
	h.BigReorg(n)
	return true
}

func boolInt(b bool) int {
	if b {
		return 1
	}
	return 0
}

// ShapeLines is the canonical tree shape + labels + arrival order used for the distinct-case digest.
func (h *Hist) ShapeLines() []string {
	idx := map[Hash32]int{}
	for i, x := range h.m.Headers {
		idx[x.Hash] = i
	}
	var out []string
	for i, x := range h.m.Headers {
		p := -1
		if x.Parent != nil {
			p = idx[x.Parent.Hash]
		}
		out = append(out, fmt.Sprintf("%d<-%d %s w=%s", i, p, x.Label, x.Work))
	}
	out = append(out, fmt.Sprintf("dup=%d forb=%d restart=%d", h.nDup, h.nForb, h.nRestart))
	return out
}

func sortHashes(hs []string) []string { sort.Strings(hs); return hs }

var _ = big.NewInt
