package verifsim

import (
	"github.com/bitcoin-sv/block-headers-service/domains"
	"github.com/bitcoin-sv/block-headers-service/internal/chaincfg/chainhash"
	"github.com/bitcoin-sv/block-headers-service/repository"
)

// hookedHeaders decorates repository.Headers (the storage boundary the properties name). Before lets the
// simulator fail the call without effect, park the caller (yield) or kill the process; After lets it report
// an error although the effect is durable (lost acknowledgement) or kill the process after the write.
type hookedHeaders struct {
	in     repository.Headers
	Before func(method string, write bool) error
	After  func(method string, write bool) error
}

func (h *hookedHeaders) pre(m string, w bool) error {
	if h.Before != nil {
		return h.Before(m, w)
	}
	return nil
}

func (h *hookedHeaders) post(m string, w bool, err error) error {
	if h.After != nil {
		if e := h.After(m, w); e != nil && err == nil {
			return e
		}
	}
	return err
}

func (h *hookedHeaders) AddHeaderToDatabase(x domains.BlockHeader) error {
	if e := h.pre("AddHeaderToDatabase", true); e != nil {
		return e
	}
	return h.post("AddHeaderToDatabase", true, h.in.AddHeaderToDatabase(x))
}

func (h *hookedHeaders) AddMultipleHeadersToDatabase(x []domains.BlockHeader) error {
	if e := h.pre("AddMultipleHeadersToDatabase", true); e != nil {
		return e
	}
	return h.post("AddMultipleHeadersToDatabase", true, h.in.AddMultipleHeadersToDatabase(x))
}

func (h *hookedHeaders) UpdateState(hs []chainhash.Hash, s domains.HeaderState) error {
	if e := h.pre("UpdateState", true); e != nil {
		return e
	}
	return h.post("UpdateState", true, h.in.UpdateState(hs, s))
}

func (h *hookedHeaders) GetHeaderByHeight(height int32) (*domains.BlockHeader, error) {
	if e := h.pre("GetHeaderByHeight", false); e != nil {
		return nil, e
	}
	v, err := h.in.GetHeaderByHeight(height)
	if e := h.post("GetHeaderByHeight", false, err); e != nil {
		return nil, e
	}
	return v, nil
}

func (h *hookedHeaders) GetHeaderByHeightRange(from, to int) ([]*domains.BlockHeader, error) {
	if e := h.pre("GetHeaderByHeightRange", false); e != nil {
		return nil, e
	}
	v, err := h.in.GetHeaderByHeightRange(from, to)
	if e := h.post("GetHeaderByHeightRange", false, err); e != nil {
		return nil, e
	}
	return v, nil
}

func (h *hookedHeaders) GetLongestChainHeadersFromHeight(height int32) ([]*domains.BlockHeader, error) {
	if e := h.pre("GetLongestChainHeadersFromHeight", false); e != nil {
		return nil, e
	}
	v, err := h.in.GetLongestChainHeadersFromHeight(height)
	if e := h.post("GetLongestChainHeadersFromHeight", false, err); e != nil {
		return nil, e
	}
	return v, nil
}

func (h *hookedHeaders) GetStaleChainHeadersBackFrom(hash string) ([]*domains.BlockHeader, error) {
	if e := h.pre("GetStaleChainHeadersBackFrom", false); e != nil {
		return nil, e
	}
	v, err := h.in.GetStaleChainHeadersBackFrom(hash)
	if e := h.post("GetStaleChainHeadersBackFrom", false, err); e != nil {
		return nil, e
	}
	return v, nil
}

func (h *hookedHeaders) GetCurrentHeight() (int, error) {
	if e := h.pre("GetCurrentHeight", false); e != nil {
		return 0, e
	}
	v, err := h.in.GetCurrentHeight()
	return v, h.post("GetCurrentHeight", false, err)
}

func (h *hookedHeaders) GetHeadersCount() (int, error) {
	if e := h.pre("GetHeadersCount", false); e != nil {
		return 0, e
	}
	v, err := h.in.GetHeadersCount()
	return v, h.post("GetHeadersCount", false, err)
}

func (h *hookedHeaders) GetHeaderByHash(hash string) (*domains.BlockHeader, error) {
	if e := h.pre("GetHeaderByHash", false); e != nil {
		return nil, e
	}
	v, err := h.in.GetHeaderByHash(hash)
	if e := h.post("GetHeaderByHash", false, err); e != nil {
		return nil, e
	}
	return v, nil
}

func (h *hookedHeaders) GetMerkleRootsConfirmations(req []domains.MerkleRootConfirmationRequestItem, ex int) ([]*domains.MerkleRootConfirmation, error) {
	if e := h.pre("GetMerkleRootsConfirmations", false); e != nil {
		return nil, e
	}
	v, err := h.in.GetMerkleRootsConfirmations(req, ex)
	if e := h.post("GetMerkleRootsConfirmations", false, err); e != nil {
		return nil, e
	}
	return v, nil
}

func (h *hookedHeaders) GetMerkleRoots(batch int, key string) (*domains.MerkleRootsESKPagedResponse, error) {
	if e := h.pre("GetMerkleRoots", false); e != nil {
		return nil, e
	}
	v, err := h.in.GetMerkleRoots(batch, key)
	if e := h.post("GetMerkleRoots", false, err); e != nil {
		return nil, e
	}
	return v, nil
}

func (h *hookedHeaders) GenesisExists() bool {
	_ = h.pre("GenesisExists", false)
	v := h.in.GenesisExists()
	_ = h.post("GenesisExists", false, nil)
	return v
}

func (h *hookedHeaders) GetPreviousHeader(hash string) (*domains.BlockHeader, error) {
	if e := h.pre("GetPreviousHeader", false); e != nil {
		return nil, e
	}
	v, err := h.in.GetPreviousHeader(hash)
	if e := h.post("GetPreviousHeader", false, err); e != nil {
		return nil, e
	}
	return v, nil
}

func (h *hookedHeaders) GetTip() (*domains.BlockHeader, error) {
	if e := h.pre("GetTip", false); e != nil {
		return nil, e
	}
	v, err := h.in.GetTip()
	if e := h.post("GetTip", false, err); e != nil {
		return nil, e
	}
	return v, nil
}

func (h *hookedHeaders) GetAllTips() ([]*domains.BlockHeader, error) {
	if e := h.pre("GetAllTips", false); e != nil {
		return nil, e
	}
	v, err := h.in.GetAllTips()
	if e := h.post("GetAllTips", false, err); e != nil {
		return nil, e
	}
	return v, nil
}

func (h *hookedHeaders) GetAncestorOnHeight(hash string, height int32) (*domains.BlockHeader, error) {
	if e := h.pre("GetAncestorOnHeight", false); e != nil {
		return nil, e
	}
	v, err := h.in.GetAncestorOnHeight(hash, height)
	if e := h.post("GetAncestorOnHeight", false, err); e != nil {
		return nil, e
	}
	return v, nil
}

func (h *hookedHeaders) GetChainBetweenTwoHashes(low, high string) ([]*domains.BlockHeader, error) {
	if e := h.pre("GetChainBetweenTwoHashes", false); e != nil {
		return nil, e
	}
	v, err := h.in.GetChainBetweenTwoHashes(low, high)
	if e := h.post("GetChainBetweenTwoHashes", false, err); e != nil {
		return nil, e
	}
	return v, nil
}

func (h *hookedHeaders) GetHeadersStartHeight(hashtable []string) (int, error) {
	if e := h.pre("GetHeadersStartHeight", false); e != nil {
		return 0, e
	}
	v, err := h.in.GetHeadersStartHeight(hashtable)
	return v, h.post("GetHeadersStartHeight", false, err)
}

func (h *hookedHeaders) GetHeadersByHeightRange(from, to int) ([]*domains.BlockHeader, error) {
	if e := h.pre("GetHeadersByHeightRange", false); e != nil {
		return nil, e
	}
	v, err := h.in.GetHeadersByHeightRange(from, to)
	if e := h.post("GetHeadersByHeightRange", false, err); e != nil {
		return nil, e
	}
	return v, nil
}

func (h *hookedHeaders) GetHeadersStopHeight(hashStop string) (int, error) {
	if e := h.pre("GetHeadersStopHeight", false); e != nil {
		return 0, e
	}
	v, err := h.in.GetHeadersStopHeight(hashStop)
	return v, h.post("GetHeadersStopHeight", false, err)
}
