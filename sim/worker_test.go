package verifsim

import (
	"crypto/sha256"
	"encoding/json"
	"fmt"
	"os"
	"path/filepath"
	"runtime"
	"strconv"
	"strings"
	"sync"
	"testing"
	"time"
)

// Job is what the runner (bin/verif) hands to one worker process.
type Job struct {
	Mode       string            `json:"mode"` // run | replay | digests
	Engine     string            `json:"engine"`
	Prop       string            `json:"prop"`
	Tier       string            `json:"tier"`
	BaseSeed   uint64            `json:"base_seed"`
	Worker     int               `json:"worker"`
	Workers    int               `json:"workers"`
	MaxRuns    int               `json:"max_runs"`
	BudgetS    float64           `json:"budget_s"`
	ShrinkS    float64           `json:"shrink_s"`
	Out        string            `json:"out"`
	ReplayDir  string            `json:"replay_dir"`
	ReplayFile string            `json:"replay_file"`
	Opt        map[string]string `json:"opt"`
	MaxViol    int               `json:"max_viol"`
}

type ReplayFile struct {
	Property  string            `json:"property"`
	Engine    string            `json:"engine"`
	Tier      string            `json:"tier"`
	Seed      uint64            `json:"seed"`
	Opt       map[string]string `json:"opt"`
	Tape      []uint32          `json:"tape"`
	OrigLen   int               `json:"original_tape_len"`
	Violation *Violation        `json:"violation"`
	Digest    string            `json:"event_log_digest"`
	Cfg       map[string]any    `json:"config"`
	Trace     []string          `json:"trace"`
	Labels    []string          `json:"tape_labels,omitempty"`
	// FromSeed: the tape is not recorded (the process died before it could be written); the replay generates it
	// from Seed, exactly as the search did.
	FromSeed bool `json:"tape_from_seed,omitempty"`
}

type ViolOut struct {
	Violation *Violation `json:"violation"`
	Seed      uint64     `json:"seed"`
	Replay    string     `json:"replay"`
	TapeLen   int        `json:"tape_len"`
	OrigLen   int        `json:"orig_len"`
}

type WorkerOut struct {
	Runs          int               `json:"runs"`
	Steps         int               `json:"steps"`
	SimTimeS      float64           `json:"sim_time_s"`
	WallS         float64           `json:"wall_s"`
	Stats         map[string]int    `json:"stats"`
	Digests       []string          `json:"digests"`
	NontrivDig    []string          `json:"nontrivial_digests"`
	Violations    []ViolOut         `json:"violations"`
	Foreign       map[string]int    `json:"foreign_violations"` // violations tagged with another property
	HarnessErrors []string          `json:"harness_errors"`
	Samples       []map[string]any  `json:"samples"`
	SeedDigests   map[string]string `json:"seed_digests,omitempty"`
	Replay        map[string]any    `json:"replay,omitempty"`
}

var (
	onStuck       func(seed uint64, after time.Duration)
	shrinkOut     *WorkerOut
	shrinkOrigLen int
)

func TestSim(t *testing.T) {
	jp := os.Getenv("VERIF_JOB")
	if jp == "" {
		t.Skip("VERIF_JOB not set")
	}
	raw, err := os.ReadFile(jp)
	if err != nil {
		t.Fatalf("job: %v", err)
	}
	var job Job
	if err := json.Unmarshal(raw, &job); err != nil {
		t.Fatalf("job: %v", err)
	}
	e := engines[job.Engine]
	if e == nil {
		t.Fatalf("unknown engine %q", job.Engine)
	}
	if job.Workers == 0 {
		job.Workers = 1
	}
	if job.MaxViol == 0 {
		job.MaxViol = 40
	}
	theT = t
	// production code prints diagnostics with fmt.Println (e.g. wire.discardInput prints every read error)
	if dn, err := os.OpenFile(os.DevNull, os.O_WRONLY, 0); err == nil {
		os.Stdout = dn
	}
	worldInit()
	defer worldCleanup()

	out := &WorkerOut{Stats: map[string]int{}, Foreign: map[string]int{}}
	start := time.Now()
	// watchdog (real time, outside every bubble): an execution that does not end is one in which some goroutine is
	// blocked where the simulator cannot see it (e.g. on a sync.Mutex held across a parked call), so that
	// quiescence never comes. The mode's onStuck hook records what it has; the output is written and the process ends.
	stuckAfter := 300 * time.Second
	if v, err := strconv.Atoi(os.Getenv("VERIF_STUCK_S")); err == nil && v > 0 {
		stuckAfter = time.Duration(v) * time.Second
	}
	if job.Mode == "shrink" && stuckAfter > 30*time.Second {
		stuckAfter = 30 * time.Second // a shrinking candidate that hangs is simply not a candidate
	}
	go func() {
		for {
			time.Sleep(time.Second)
			st := execStart.Load()
			if st == 0 || time.Since(time.Unix(0, st)) < stuckAfter {
				continue
			}
			// where everybody is
			buf := make([]byte, 8<<20)
			buf = buf[:runtime.Stack(buf, true)]
			// a goroutine that is running inside the service's own code and never comes to rest is a verdict, not
			// trouble: the service spins (livelock). It is reported like any other violation, with the tape
			// consumed so far as replay (the run is stuck right where that tape ends).
			site, gid := spinningSiteG(string(buf))
			class, find := "livelock", spinningSiteG
			if site == "" {
				// ... and so is a goroutine that waits for a lock the service's own code asked for and nobody releases
				if site, gid = lockedSiteG(string(buf)); site != "" {
					class, find = "blocked-forever", lockedSiteG
				}
			}
			if site != "" {
				// a run that is merely slow has a goroutine of the service running at any moment too: only a goroutine
				// that is still running at the same place five seconds later, with the event log not a line longer
				// and the same execution still in progress, counts as spinning
				traceLen, st0 := -1, execStart.Load()
				if r0 := execRun.Load(); r0 != nil {
					traceLen = len(r0.Trace)
				}
				time.Sleep(5 * time.Second)
				buf2 := make([]byte, 8<<20)
				buf2 = buf2[:runtime.Stack(buf2, true)]
				site2, gid2 := find(string(buf2))
				len2 := -1
				if r0 := execRun.Load(); r0 != nil {
					len2 = len(r0.Trace)
				}
				if site2 != site || gid2 != gid || len2 != traceLen || execStart.Load() != st0 {
					site = ""
				}
			}
			if site != "" {
				r, tp := execRun.Load(), execTape.Load()
				v := &Violation{Prop: job.Prop, Class: class, Sig: job.Prop + "|" + class + "|" + site,
					Msg: fmt.Sprintf("the run did not come to rest within %v of real time: a goroutine of the service keeps running in %s without ever waiting (holding whatever it holds)", stuckAfter, site)}
				if class == "blocked-forever" {
					v.Msg = fmt.Sprintf("the run did not come to rest within %v of real time: %s waits for a lock (sync.Mutex / sync.RWMutex) that nobody releases - it was left held on some path; everything that needs it waits with it", stuckAfter, site)
				}
				res := &Result{Seed: execSeed.Load(), Viol: v}
				if r != nil {
					v.Step = r.Step
					res.Trace, res.Cfg = append([]string{}, r.Trace...), r.Cfg
					res.Digest = digestLines(res.Trace)
				}
				if tp != nil {
					res.Tape = append([]uint32{}, tp.Out...)
				}
				switch job.Mode {
				case "replay":
					exp := ""
					if rfRaw, err := os.ReadFile(job.ReplayFile); err == nil {
						var rf ReplayFile
						if json.Unmarshal(rfRaw, &rf) == nil && rf.Violation != nil {
							exp = rf.Violation.Sig
							out.Replay = map[string]any{"violation": v, "same_sig": v.Sig == exp, "same_digest": res.Digest == rf.Digest, "digest": res.Digest, "expected_digest": rf.Digest, "trace": res.Trace}
						}
					}
					out.Runs = 1
				case "shrink":
					if onStuck != nil {
						onStuck(execSeed.Load(), stuckAfter)
					}
				default:
					rf := writeReplay(&job, e, res.Seed, res, len(res.Tape), fmt.Sprintf("tmp-w%d-stuck-", job.Worker))
					out.Violations = append(out.Violations, ViolOut{Violation: v, Seed: res.Seed, Replay: rf, TapeLen: len(res.Tape), OrigLen: len(res.Tape)})
					out.Stats["violating_runs"]++
					out.Stats["livelock_runs"]++
					out.Runs++
				}
			} else if onStuck != nil {
				onStuck(execSeed.Load(), stuckAfter)
			} else {
				out.HarnessErrors = append(out.HarnessErrors, fmt.Sprintf("seed=%d: execution did not end within %v of real time", execSeed.Load(), stuckAfter))
			}
			dump := job.Out + ".stuck-goroutines.txt"
			if job.ReplayDir != "" {
				_ = os.MkdirAll(job.ReplayDir, 0o755)
				dump = filepath.Join(job.ReplayDir, fmt.Sprintf("tmp-stuck-%d-goroutines.txt", execSeed.Load()))
			}
			_ = os.WriteFile(dump, buf, 0o644)
			out.HarnessErrors = append(out.HarnessErrors, "goroutine dump of the stuck run: "+dump)
			out.WallS = time.Since(start).Seconds()
			b, _ := json.Marshal(out)
			_ = os.WriteFile(job.Out, b, 0o644)
			os.Exit(0)
		}
	}()
	switch job.Mode {
	case "replay":
		doReplay(e, &job, out)
	case "shrink":
		doShrink(e, &job, out)
	default:
		doRuns(e, &job, out, start)
	}
	out.WallS = time.Since(start).Seconds()
	b, _ := json.Marshal(out)
	if err := os.WriteFile(job.Out, b, 0o644); err != nil {
		t.Fatalf("write out: %v", err)
	}
}

func doRuns(e *Engine, job *Job, out *WorkerOut, start time.Time) {
	digs := map[string]bool{}
	ntdigs := map[string]bool{}
	seenSig := map[string]bool{}
	if job.Mode == "digests" {
		out.SeedDigests = map[string]string{}
	}
	deadline := start.Add(time.Duration(job.BudgetS * float64(time.Second)))
	handle := func(i int, seed uint64, res *Result, opt map[string]string) {
		out.Runs++
		out.Steps += res.Steps
		out.SimTimeS += res.SimTime.Seconds()
		for k, v := range res.Stats {
			out.Stats[k] += v
		}
		if res.HarnessErr != "" {
			if len(out.HarnessErrors) < 5 {
				out.HarnessErrors = append(out.HarnessErrors, fmt.Sprintf("seed=%d: %s", seed, res.HarnessErr))
			}
			out.Stats["harness_errors"]++
			return
		}
		if out.SeedDigests != nil {
			if i >= 0 {
				out.SeedDigests[fmt.Sprint(i)] = res.Digest
				if d := os.Getenv("VERIF_DUMP_TRACES"); d != "" {
					_ = os.MkdirAll(d, 0o755)
					_ = os.WriteFile(filepath.Join(d, fmt.Sprintf("%d.txt", i)), []byte(strings.Join(res.Trace, "\n")+"\n"), 0o644)
				}
			}
		}
		digs[res.ShapeDig[:16]] = true
		if res.Nontrivial {
			ntdigs[res.ShapeDig[:16]] = true
			out.Stats["nontrivial_runs"]++
		}
		if len(out.Samples) < 2 && res.Nontrivial && res.Viol == nil {
			tr := res.Trace
			if len(tr) > 60 {
				tr = append(append([]string{}, tr[:60]...), fmt.Sprintf("... (%d more lines)", len(res.Trace)-60))
			}
			out.Samples = append(out.Samples, map[string]any{"seed": seed, "config": res.Cfg, "trace": tr, "steps": res.Steps})
		}
		if res.Viol != nil {
			if res.Viol.Prop != job.Prop {
				out.Foreign[res.Viol.Sig]++
				return
			}
			out.Stats["violating_runs"]++
			if len(res.RaceSigs) > 1 {
				// one entry per distinct race report of the run (same tape)
				for _, sg := range res.RaceSigs[1:] {
					if seenSig[sg] || len(out.Violations) >= job.MaxViol {
						continue
					}
					seenSig[sg] = true
					v2 := *res.Viol
					v2.Sig = sg
					r2 := *res
					r2.Viol = &v2
					j2 := *job
					j2.Opt = opt
					rf := writeReplay(&j2, e, seed, &r2, len(res.Tape), fmt.Sprintf("tmp-w%d-%d-", job.Worker, out.Runs))
					out.Violations = append(out.Violations, ViolOut{Violation: &v2, Seed: seed, Replay: rf, TapeLen: len(res.Tape), OrigLen: len(res.Tape)})
				}
			}
			if seenSig[res.Viol.Sig] || len(out.Violations) >= job.MaxViol {
				return
			}
			seenSig[res.Viol.Sig] = true
			// shrinking is a separate stage (mode "shrink"), so that the search budget is spent searching
			j2 := *job
			j2.Opt = opt
			rf := writeReplay(&j2, e, seed, res, len(res.Tape), fmt.Sprintf("tmp-w%d-%d-", job.Worker, out.Runs))
			out.Violations = append(out.Violations, ViolOut{Violation: res.Viol, Seed: seed, Replay: rf, TapeLen: len(res.Tape), OrigLen: len(res.Tape)})
		}
	}
	// a run that does not end (see watchdog in TestSim): the worker hands in what it has - violations found so far
	// stay reportable - and names the seed
	var wmu sync.Mutex
	onStuck = func(seed uint64, after time.Duration) {
		wmu.Lock()
		out.HarnessErrors = append(out.HarnessErrors, fmt.Sprintf("seed=%d: run did not end within %v of real time (a goroutine is blocked outside the simulator's control); worker abandoned after %d runs", seed, after, out.Runs))
		out.Stats["stuck_runs"]++
		for d := range digs {
			out.Digests = append(out.Digests, d)
		}
		for d := range ntdigs {
			out.NontrivDig = append(out.NontrivDig, d)
		}
	}
	for i := job.Worker; i < job.MaxRuns; i += job.Workers {
		if job.BudgetS > 0 && time.Now().After(deadline) {
			break
		}
		seedProp := job.Prop
		if sp := job.Opt["seedprop"]; sp != "" {
			seedProp = sp // (debugging aid of bin/probe: the seeds of another property's check)
		}
		seed := Mix(job.BaseSeed, seedProp, uint64(i))
		noteCurrent(job, i, seed, job.Opt)
		res := execute(e, job.Prop, job.Tier, seed, NewGenTape(seed), job.Opt)
		wmu.Lock()
		handle(i, seed, res, job.Opt)
		wmu.Unlock()
		for _, sub := range res.SubRuns {
			if job.BudgetS > 0 && time.Now().After(deadline.Add(time.Duration(job.BudgetS*float64(time.Second)))) {
				out.Stats["subruns_cut_by_budget"]++
				break
			}
			opt := withOpt(job.Opt, "sub", sub)
			noteCurrent(job, i, seed, opt)
			sres := execute(e, job.Prop, job.Tier, seed, NewGenTape(seed), opt)
			wmu.Lock()
			out.Stats["subruns"]++
			handle(-1, seed, sres, opt)
			wmu.Unlock()
		}
	}
	for d := range digs {
		out.Digests = append(out.Digests, d)
	}
	for d := range ntdigs {
		out.NontrivDig = append(out.NontrivDig, d)
	}
}

// noteCurrent records which execution is about to start. An unrecovered panic in a goroutine of the service ends the
// whole worker process, as it would end the service; the runner then finds here which seed the process died in.
func noteCurrent(job *Job, i int, seed uint64, opt map[string]string) {
	b, _ := json.Marshal(map[string]any{"i": i, "seed": seed, "opt": opt, "engine": job.Engine, "prop": job.Prop, "tier": job.Tier})
	_ = os.WriteFile(job.Out+".cur", b, 0o644)
}

func doShrink(e *Engine, job *Job, out *WorkerOut) {
	raw, err := os.ReadFile(job.ReplayFile)
	if err != nil {
		out.HarnessErrors = append(out.HarnessErrors, err.Error())
		return
	}
	var rf ReplayFile
	if err := json.Unmarshal(raw, &rf); err != nil {
		out.HarnessErrors = append(out.HarnessErrors, err.Error())
		return
	}
	job.Opt = rf.Opt
	if rf.Violation != nil && (rf.Violation.Class == "livelock" || rf.Violation.Class == "blocked-forever") {
		// every candidate would have to be waited for until the watchdog fires: the tape is kept as found
		res := &Result{Seed: rf.Seed, Tape: rf.Tape, Viol: rf.Violation, Digest: rf.Digest, Cfg: rf.Cfg, Trace: rf.Trace}
		p := writeReplay(job, e, rf.Seed, res, rf.OrigLen, "")
		out.Violations = append(out.Violations, ViolOut{Violation: rf.Violation, Seed: rf.Seed, Replay: p, TapeLen: len(rf.Tape), OrigLen: rf.OrigLen})
		out.Runs = 1
		return
	}
	orig := execute(e, rf.Property, rf.Tier, rf.Seed, NewReplayTape(rf.Tape), rf.Opt)
	out.Runs = 1
	if rf.Violation != nil && rf.Violation.Class == "data-race" {
		// which of several races is reported first varies; the tape is kept as found (no shrinking) if the
		// recorded race is among the reports of the re-execution
		if orig.Viol != nil && (orig.Viol.Sig == rf.Violation.Sig || containsStr(orig.RaceSigs, rf.Violation.Sig)) {
			v2 := *orig.Viol
			v2.Sig = rf.Violation.Sig
			orig.Viol = &v2
			p := writeReplay(job, e, rf.Seed, orig, rf.OrigLen, "")
			out.Violations = append(out.Violations, ViolOut{Violation: orig.Viol, Seed: rf.Seed, Replay: p, TapeLen: len(orig.Tape), OrigLen: rf.OrigLen})
			return
		}
		out.Replay = map[string]any{"same_sig": false, "note": "race did not recur when re-executed", "trace": orig.Trace}
		return
	}
	if orig.Viol == nil || rf.Violation == nil || orig.Viol.Sig != rf.Violation.Sig {
		out.Replay = map[string]any{"same_sig": false, "note": "violation did not recur when re-executed before shrinking", "trace": orig.Trace}
		return
	}
	shrinkOut, shrinkOrigLen = out, rf.OrigLen
	min := shrink(e, job, rf.Seed, orig)
	onStuck = nil
	p := writeReplay(job, e, rf.Seed, min, rf.OrigLen, "")
	out.Violations = append(out.Violations, ViolOut{Violation: min.Viol, Seed: rf.Seed, Replay: p, TapeLen: len(min.Tape), OrigLen: rf.OrigLen})
}

func writeReplay(job *Job, e *Engine, seed uint64, res *Result, origLen int, prefix string) string {
	rf := ReplayFile{Property: job.Prop, Engine: e.Name, Tier: job.Tier, Seed: seed, Opt: job.Opt, Tape: res.Tape, OrigLen: origLen,
		Violation: res.Viol, Digest: res.Digest, Cfg: res.Cfg, Trace: res.Trace}
	if len(res.Labels) <= 400 {
		rf.Labels = res.Labels
	}
	_ = os.MkdirAll(job.ReplayDir, 0o755)
	sh := sha256.Sum256([]byte(res.Viol.Sig))
	p := filepath.Join(job.ReplayDir, fmt.Sprintf("%s%s-%s-%d-%x.json", prefix, job.Prop, e.Name, seed, sh[:3]))
	b, _ := json.MarshalIndent(rf, "", " ")
	_ = os.WriteFile(p, b, 0o644)
	return p
}

func doReplay(e *Engine, job *Job, out *WorkerOut) {
	raw, err := os.ReadFile(job.ReplayFile)
	if err != nil {
		out.HarnessErrors = append(out.HarnessErrors, err.Error())
		return
	}
	var rf ReplayFile
	if err := json.Unmarshal(raw, &rf); err != nil {
		out.HarnessErrors = append(out.HarnessErrors, err.Error())
		return
	}
	onStuck = func(_ uint64, after time.Duration) {
		out.Replay = map[string]any{"same_sig": false, "same_digest": false, "note": fmt.Sprintf("replay did not end within %v of real time", after)}
	}
	tape := NewReplayTape(rf.Tape)
	if rf.FromSeed {
		tape = NewGenTape(rf.Seed)
	}
	res := execute(e, rf.Property, rf.Tier, rf.Seed, tape, rf.Opt)
	onStuck = nil
	out.Runs = 1
	rep := map[string]any{"digest": res.Digest, "expected_digest": rf.Digest, "trace": res.Trace}
	if res.HarnessErr != "" {
		out.HarnessErrors = append(out.HarnessErrors, res.HarnessErr)
	}
	if res.Viol != nil {
		rep["violation"] = res.Viol
		rep["same_sig"] = rf.Violation != nil && (res.Viol.Sig == rf.Violation.Sig || containsStr(res.RaceSigs, rf.Violation.Sig))
	} else {
		rep["same_sig"] = false
	}
	rep["same_digest"] = res.Digest == rf.Digest
	out.Replay = rep
}

// shrink minimises the tape while the same violation signature recurs.
func shrink(e *Engine, job *Job, seed uint64, orig *Result) *Result {
	budget := job.ShrinkS
	if budget == 0 {
		budget = 15
	}
	deadline := time.Now().Add(time.Duration(budget * float64(time.Second)))
	best := orig
	sig := orig.Viol.Sig
	onStuck = func(uint64, time.Duration) {
		// the candidate under test hangs: the best tape so far is the result
		p := writeReplay(job, e, seed, best, shrinkOrigLen, "")
		shrinkOut.Violations = append(shrinkOut.Violations, ViolOut{Violation: best.Viol, Seed: seed, Replay: p, TapeLen: len(best.Tape), OrigLen: shrinkOrigLen})
		shrinkOut.Stats["shrink_candidate_stuck"]++
	}
	try := func(cand []uint32) bool {
		if time.Now().After(deadline) {
			return false
		}
		res := execute(e, job.Prop, job.Tier, seed, NewReplayTape(cand), job.Opt)
		if res.Viol != nil && res.Viol.Sig == sig && res.HarnessErr == "" && len(res.Tape) <= len(best.Tape) {
			// res.Tape is the normalised tape actually consumed
			if len(res.Tape) < len(best.Tape) || tapeLess(res.Tape, best.Tape) {
				best = res
				return true
			}
		}
		return false
	}
	improved := true
	for improved && time.Now().Before(deadline) {
		improved = false
		// 1. delete chunks
		for size := len(best.Tape) / 2; size >= 1; size /= 2 {
			for i := 0; i+size <= len(best.Tape); {
				cand := append(append([]uint32{}, best.Tape[:i]...), best.Tape[i+size:]...)
				if try(cand) {
					improved = true
				} else {
					i += size
				}
				if time.Now().After(deadline) {
					break
				}
			}
		}
		// 2. zero entries, then halve
		for i := 0; i < len(best.Tape) && time.Now().Before(deadline); i++ {
			if best.Tape[i] == 0 {
				continue
			}
			cand := append([]uint32{}, best.Tape...)
			cand[i] = 0
			if try(cand) {
				improved = true
				continue
			}
			cand = append([]uint32{}, best.Tape...)
			cand[i] = best.Tape[i] / 2
			if try(cand) {
				improved = true
				continue
			}
			cand = append([]uint32{}, best.Tape...)
			cand[i] = best.Tape[i] - 1
			if try(cand) {
				improved = true
			}
		}
	}
	// final: re-execute the minimal tape once more so that trace/digest belong to exactly this tape
	final := execute(e, job.Prop, job.Tier, seed, NewReplayTape(best.Tape), job.Opt)
	if final.Viol != nil && final.Viol.Sig == sig {
		return final
	}
	return orig
}

func tapeLess(a, b []uint32) bool {
	for i := range a {
		if i >= len(b) {
			return false
		}
		if a[i] != b[i] {
			return a[i] < b[i]
		}
	}
	return false
}

func containsStr(l []string, s string) bool {
	for _, x := range l {
		if x == s {
			return true
		}
	}
	return false
}
