package verifsim

import (
	"bufio"
	"context"
	"encoding/json"
	"errors"
	"fmt"
	"io"
	"net"
	"net/http"
	"net/url"
	"sort"
	"strings"
	"time"

	"github.com/bitcoin-sv/block-headers-service/notification"
)

// hooksim: register / delete / re-register / notify / query / restart histories of webhooks against a counter
// model, on a simulated clock. Two client classes: a scripted WebhookTargetClient, and the production client
// whose http.DefaultTransport dials in-memory connections to a scripted in-process HTTP server, so the exact
// request that would reach the wire is observed. Serves C12.

func init() {
	register(&Engine{Name: "hooksim", Props: []string{"C12"}, Exec: hooksimExec, Bubble: true})
}

type hookModel struct {
	url, hdrName, hdrValue, authKind string
	active                           bool
	count                            int
	attempted                        bool
	lastTime                         int64
	lastCode                         int // 0: transport error / unreadable body
}

type hookCall struct {
	url     string
	headers http.Header
	method  string
	body    []byte
}

type hookSim struct {
	r          *Run
	w          *World
	maxTries   int
	model      map[string]*hookModel
	outcomes   map[string]int // per url: planned outcome of the next call
	calls      []hookCall
	prodClnt   bool
	lis        *simListener
	replyShape int    // how a 200 reply is written to the production client (0 one piece, 1 split, 2 chunked, 3 large)
	duringCall func() // (scripted client) runs inside the next delivery: another API client at work meanwhile
}

const (
	oc200 = iota
	ocStatus
	ocTransport
	ocBadBody
)

// the fourth URL is the first one with "_" for "-": two rows that only a pattern comparison (LIKE) confuses (wave 9)
var hookURLs = []string{"http://hook-a.sim/cb", "http://hook-b.sim:8080/x/y", "http://hook-c.sim/", "http://hook_a.sim/cb"}

type errBody struct{}

func (errBody) Read([]byte) (int, error) { return 0, errors.New("simnet: body cut short") }
func (errBody) Close() error             { return nil }

// Call implements notification.WebhookTargetClient (scripted class).
func (s *hookSim) Call(headers map[string]string, method string, u string, body any) (*http.Response, error) {
	b, _ := json.Marshal(body)
	h := http.Header{}
	for k, v := range headers {
		h[k] = append(h[k], v) // exactly as configured, no canonicalisation
	}
	s.calls = append(s.calls, hookCall{url: u, headers: h, method: method, body: b})
	if f := s.duringCall; f != nil {
		s.duringCall = nil
		f() // what another API client does while this delivery is in flight
	}
	switch s.outcomes[u] {
	case oc200:
		return &http.Response{StatusCode: 200, Body: io.NopCloser(strings.NewReader("ok"))}, nil
	case ocStatus:
		return &http.Response{StatusCode: 503, Body: io.NopCloser(strings.NewReader("busy"))}, nil
	case ocTransport:
		return nil, errors.New("simnet: connection refused")
	default:
		return &http.Response{StatusCode: 200, Body: errBody{}}, nil
	}
}

// serve is the scripted in-process HTTP server behind the production client.
func (s *hookSim) serve(c net.Conn) {
	defer c.Close()
	br := bufio.NewReader(c)
	req, err := http.ReadRequest(br)
	if err != nil {
		return
	}
	body, _ := io.ReadAll(req.Body)
	u := "http://" + req.Host + req.URL.Path
	s.calls = append(s.calls, hookCall{url: u, headers: req.Header.Clone(), method: req.Method, body: body})
	switch s.outcomes[u] {
	case oc200:
		switch s.replyShape {
		case 1: // the status line and the headers first, the body a moment later
			_, _ = io.WriteString(c, "HTTP/1.1 200 OK\r\nContent-Length: 2\r\nConnection: close\r\n\r\n")
			time.Sleep(50 * time.Millisecond)
			_, _ = io.WriteString(c, "ok")
		case 2: // chunked, the chunks apart
			_, _ = io.WriteString(c, "HTTP/1.1 200 OK\r\nTransfer-Encoding: chunked\r\nConnection: close\r\n\r\n")
			time.Sleep(20 * time.Millisecond)
			_, _ = io.WriteString(c, "1\r\no\r\n")
			time.Sleep(20 * time.Millisecond)
			_, _ = io.WriteString(c, "1\r\nk\r\n0\r\n\r\n")
		case 3: // a body larger than any read buffer
			_, _ = io.WriteString(c, "HTTP/1.1 200 OK\r\nContent-Length: 20000\r\nConnection: close\r\n\r\n")
			_, _ = io.WriteString(c, strings.Repeat("x", 6000))
			time.Sleep(10 * time.Millisecond)
			_, _ = io.WriteString(c, strings.Repeat("y", 14000))
		default:
			_, _ = io.WriteString(c, "HTTP/1.1 200 OK\r\nContent-Length: 2\r\nConnection: close\r\n\r\nok")
		}
	case ocStatus:
		_, _ = io.WriteString(c, "HTTP/1.1 503 Service Unavailable\r\nContent-Length: 4\r\nConnection: close\r\n\r\nbusy")
	case ocBadBody:
		_, _ = io.WriteString(c, "HTTP/1.1 200 OK\r\nContent-Length: 100\r\nConnection: close\r\n\r\nshort")
	}
}

func hooksimExec(r *Run) {
	t := r.T
	w := NewWorld(r)
	defer w.Destroy()
	s := &hookSim{r: r, w: w, model: map[string]*hookModel{}, outcomes: map[string]int{}}
	s.maxTries = t.Range(1, 5, "max-tries")
	w.Cfg.Webhook.MaxTries = s.maxTries
	s.prodClnt = t.Chance(1, 3, "production-client")
	r.Cfg["max_tries"] = s.maxTries
	r.Cfg["production_client"] = s.prodClnt
	start := time.Now()
	if s.prodClnt {
		s.lis = newSimListener("hooks:80")
		oldT := http.DefaultTransport
		http.DefaultTransport = &http.Transport{
			DisableKeepAlives: true,
			DialContext: func(ctx context.Context, network, addr string) (net.Conn, error) {
				if s.dialRefused(addr) {
					return nil, errors.New("simnet: connection refused")
				}
				c, srv := simPipe(simAddr{"bhs:1"}, simAddr{addr})
				go s.serve(srv)
				return c, nil
			},
		}
		defer func() { http.DefaultTransport = oldT }()
	} else {
		w.AfterNewServices = func(w *World) {
			w.Svc.Webhooks = notification.NewWebhooksService(w.Repo.Webhooks, s, &w.Log, w.Cfg.Webhook)
		}
	}
	w.Open()
	nops := t.Range(4, 24, "hook-ops")
	notifies, restarts, deact, resets, rereg := 0, 0, 0, 0, 0
	kinds := map[string]bool{}
	for i := 0; i < nops; i++ {
		if !t.Chance(19, 20, "more") && i >= 3 {
			break
		}
		r.Step++
		switch t.Pick([]int{25, 8, 40, 15, 6, 6}, "hook-op") {
		case 0:
			k := s.register()
			if k != "" {
				kinds[k] = true
			}
			if k == "reactivated" {
				rereg++
			}
		case 1:
			s.delete()
		case 2:
			d, rs := s.notify()
			notifies++
			deact += d
			resets += rs
		case 3:
			s.query()
		case 4:
			w.Restart()
			restarts++
			r.Fault("restart")
			r.Logf("restart")
			for _, u := range hookURLs {
				s.queryURL(u, "after-restart")
			}
		case 5:
			d := time.Duration(t.Range(1, 7200, "sleep-s")) * time.Second
			time.Sleep(d)
			r.Logf("clock +%v", d)
		}
	}
	for _, u := range hookURLs {
		s.queryURL(u, "final")
	}
	r.SimTime = time.Since(start)
	r.Shape = append([]string{fmt.Sprintf("max=%d prod=%v", s.maxTries, s.prodClnt)}, r.Trace...)
	r.Nontrivial = notifies >= 2 && deact >= 1 && (resets >= 1 || rereg >= 1 || restarts >= 1)
}

// dialRefused decides from the planned outcome of the URL(s) on that host.
func (s *hookSim) dialRefused(addr string) bool {
	host := addr
	for _, u := range hookURLs {
		pu, _ := url.Parse(u)
		h := pu.Host
		if !strings.Contains(h, ":") {
			h += ":80"
		}
		if h == host && s.outcomes[u] == ocTransport {
			return true
		}
	}
	return false
}

func (s *hookSim) register() string {
	r, t := s.r, s.r.T
	u := hookURLs[t.Draw(len(hookURLs), "url")]
	m := s.model[u]
	var kind, tok, hdr string
	if m != nil {
		kind, tok, hdr = m.authKind, strings.TrimPrefix(m.hdrValue, "Bearer "), m.hdrName // same configuration on re-registration
	} else {
		kind = []string{"bearer", "custom", "none", "BEARER"}[t.Pick([]int{35, 35, 20, 10}, "auth-kind")]
		tok = fmt.Sprintf("tok%d", r.Step)
		hdr = "X-Hook-Auth"
	}
	req := map[string]any{"url": u}
	switch strings.ToLower(kind) {
	case "bearer":
		req["requiredAuth"] = map[string]string{"type": kind, "token": tok}
	case "custom":
		req["requiredAuth"] = map[string]string{"type": "custom_header", "token": tok, "header": hdr}
	}
	body, _ := json.Marshal(req)
	code, resp := s.w.HTTP("POST", "/api/v1/webhook", body, nil)
	r.Logf("register %s auth=%s -> %d", u, kind, code)
	switch {
	case m == nil:
		if code != 200 {
			r.Fail("C12", "register", "new|"+strings.ToLower(kind), "registering %s (%s) -> %d %s", u, kind, code, string(resp))
		}
		nm := &hookModel{url: u, authKind: kind, active: true}
		switch strings.ToLower(kind) {
		case "bearer":
			nm.hdrName, nm.hdrValue = "Authorization", "Bearer "+tok
		case "custom":
			nm.hdrName, nm.hdrValue = hdr, tok
		}
		s.model[u] = nm
		return strings.ToLower(kind)
	case m.active:
		if code < 400 || code >= 500 {
			r.Fail("C12", "register", "active-not-refused", "re-registering active webhook %s -> %d %s, expected a refusal", u, code, string(resp))
		}
		return "refused"
	default:
		if code != 200 {
			r.Fail("C12", "register", "inactive-not-reactivated", "re-registering inactive webhook %s -> %d %s", u, code, string(resp))
		}
		m.active, m.count = true, 0
		s.queryURL(u, "after-reactivation")
		return "reactivated"
	}
}

// reregister re-registers an inactive webhook with its own configuration (from inside a delivery).
func (s *hookSim) reregister(u string) {
	m := s.model[u]
	req := map[string]any{"url": u}
	tok := strings.TrimPrefix(m.hdrValue, "Bearer ")
	switch strings.ToLower(m.authKind) {
	case "bearer":
		req["requiredAuth"] = map[string]string{"type": m.authKind, "token": tok}
	case "custom":
		req["requiredAuth"] = map[string]string{"type": "custom_header", "token": tok, "header": m.hdrName}
	}
	body, _ := json.Marshal(req)
	code, resp := s.w.HTTP("POST", "/api/v1/webhook", body, nil)
	s.r.Logf("register %s again while a delivery is in flight -> %d", u, code)
	if code != 200 {
		s.r.Fail("C12", "register", "inactive-not-reactivated|during-delivery", "re-registering inactive webhook %s during a delivery -> %d %s", u, code, string(resp))
	}
	m.active, m.count = true, 0
}

func (s *hookSim) delete() {
	r, t := s.r, s.r.T
	u := hookURLs[t.Draw(len(hookURLs), "url")]
	code, resp := s.w.HTTP("DELETE", "/api/v1/webhook?url="+url.QueryEscape(u), nil, nil)
	r.Logf("delete %s -> %d", u, code)
	if s.model[u] != nil {
		if code != 200 {
			r.Fail("C12", "delete", "existing", "deleting %s -> %d %s", u, code, string(resp))
		}
		delete(s.model, u)
	} else if code < 400 || code >= 500 {
		r.Fail("C12", "delete", "absent", "deleting absent %s -> %d %s", u, code, string(resp))
	}
}

func (s *hookSim) notify() (deactivated, resets int) {
	r, t := s.r, s.r.T
	var urls []string
	for u := range s.model {
		urls = append(urls, u)
	}
	sort.Strings(urls)
	for _, u := range hookURLs {
		s.outcomes[u] = t.Pick([]int{45, 25, 20, 10}, "outcome")
	}
	s.calls = nil
	// how a 200 reply reaches the production client: in one piece, headers first and the body a moment later,
	// chunked, or large
	s.replyShape = 0
	if s.prodClnt {
		s.replyShape = t.Pick([]int{40, 25, 20, 15}, "reply-shape")
	}
	// scripted client: while the first delivery of this event is in flight another API client re-registers a webhook
	// that is inactive at this moment (it is active from then on, whatever this event's own bookkeeping does)
	rereg := ""
	if !s.prodClnt {
		nAct := 0
		var inactive []string
		for _, u := range urls {
			if s.model[u].active {
				nAct++
			} else {
				inactive = append(inactive, u)
			}
		}
		if nAct > 0 && len(inactive) > 0 && t.Chance(1, 2, "reregister-during-delivery") {
			rereg = inactive[t.Draw(len(inactive), "rereg-idx")]
			s.duringCall = func() { s.reregister(rereg) }
			r.Probe("re-registration-during-a-delivery")
		}
	}
	ev := map[string]any{"operation": "ADD", "header": map[string]any{"height": r.Step, "hash": fmt.Sprintf("%064x", r.Step)}}
	now := time.Now().Unix()
	pan, pv, st := guard(func() { s.w.Svc.Webhooks.Notify(ev) })
	if pan {
		r.Fail("C12", "panic", "Notify@"+panicSite(st), "WebhooksService.Notify panicked: %v", pv)
	}
	r.Logf("notify outcomes=%v calls=%d", s.outcomes, len(s.calls))
	got := map[string][]hookCall{}
	for _, c := range s.calls {
		got[c.url] = append(got[c.url], c)
	}
	for u, cs := range got {
		if m := s.model[u]; m == nil || !m.active {
			st := "deleted"
			if m != nil {
				st = "inactive"
			}
			r.Fail("C12", "called-"+st, "notify", "%s webhook %s received %d request(s)", st, u, len(cs))
		}
	}
	s.duringCall = nil
	for _, u := range urls {
		m := s.model[u]
		if !m.active || u == rereg {
			// (a webhook re-registered while this event was being delivered was inactive when the event's list was
			// drawn up: whether it still gets this event is not pinned; its state afterwards is - active)
			continue
		}
		oc := s.outcomes[u]
		cs := got[u]
		akind := strings.ToLower(m.authKind)
		// a refused dial never reaches the scripted server; the scripted client records every call
		wantCalls := 1
		if s.prodClnt && oc == ocTransport {
			wantCalls = 0
		}
		if len(cs) != wantCalls {
			r.Fail("C12", "posts-per-event", fmt.Sprintf("auth=%s|got=%d|prod=%v", akind, len(cs), s.prodClnt), "active webhook %s (auth %s) received %d POSTs for one event, expected %d", u, akind, len(cs), wantCalls)
		}
		for _, c := range cs {
			if c.method != "POST" {
				r.Fail("C12", "method", akind, "webhook %s called with %s", u, c.method)
			}
			s.checkAuthHeader(m, c)
		}
		m.attempted = true
		m.lastTime = now
		if oc != oc200 {
			r.Fault([]string{"", "delivery-answered-503", "delivery-transport-error", "delivery-unreadable-body"}[oc])
		}
		switch oc {
		case oc200:
			if m.count > 0 {
				resets++
			}
			m.count, m.lastCode = 0, 200
		case ocStatus:
			m.count++
			m.lastCode = 503
		default:
			m.count++
			m.lastCode = 0
		}
		if m.count >= s.maxTries {
			m.active = false
			deactivated++
		}
	}
	for _, u := range urls {
		s.queryURL(u, "after-notify")
	}
	return
}

func (s *hookSim) checkAuthHeader(m *hookModel, c hookCall) {
	r := s.r
	akind := strings.ToLower(m.authKind)
	var names []string
	for k := range c.headers {
		lk := strings.ToLower(k)
		if lk == "content-type" || lk == "content-length" || lk == "user-agent" || lk == "accept-encoding" || lk == "connection" || lk == "host" {
			continue
		}
		names = append(names, k)
	}
	sort.Strings(names)
	if akind == "none" {
		if len(names) != 0 {
			r.Fail("C12", "auth-header", "none|extra", "webhook %s without authorisation was called with headers %v", m.url, names)
		}
		return
	}
	vals := c.headers.Values(m.hdrName)
	if len(vals) == 0 {
		for k, v := range c.headers {
			if strings.EqualFold(k, m.hdrName) {
				vals = v
			}
		}
	}
	if len(vals) != 1 || vals[0] != m.hdrValue || len(names) != 1 {
		r.Fail("C12", "auth-header", akind, "webhook %s must carry exactly %s: %s, request carried %v", m.url, m.hdrName, m.hdrValue, c.headers)
	}
}

func (s *hookSim) query() {
	u := hookURLs[s.r.T.Draw(len(hookURLs), "url")]
	s.queryURL(u, "query")
}

func (s *hookSim) queryURL(u, when string) {
	r := s.r
	code, resp := s.w.HTTP("GET", "/api/v1/webhook?url="+url.QueryEscape(u), nil, nil)
	m := s.model[u]
	if m == nil {
		if code != 404 {
			r.Fail("C12", "query", "absent|"+when, "GET webhook %s (not registered) -> %d %s", u, code, string(resp))
		}
		return
	}
	var j struct {
		URL    string    `json:"url"`
		Status string    `json:"lastEmitStatus"`
		Time   time.Time `json:"lastEmitTimestamp"`
		Errors int       `json:"errorsCount"`
		Active bool      `json:"active"`
	}
	if code != 200 || parseOneJSON(resp, &j) != nil {
		r.Fail("C12", "query", "status|"+when, "GET webhook %s -> %d %s", u, code, string(resp))
	}
	if j.Active != m.active || j.Errors != m.count {
		r.Fail("C12", "state", fmt.Sprintf("%s|max=%d|model-active=%v", when, s.maxTries, m.active), "webhook %s reports active=%v errorsCount=%d; model (max_tries %d): active=%v count=%d", u, j.Active, j.Errors, s.maxTries, m.active, m.count)
	}
	if m.attempted {
		if j.Time.Unix() != m.lastTime {
			r.Fail("C12", "last-attempt-time", when, "webhook %s reports last attempt at %s, the attempt was at %s (simulated clock)", u, j.Time.UTC().Format(time.RFC3339), time.Unix(m.lastTime, 0).UTC().Format(time.RFC3339))
		}
		if (m.lastCode != 0 && !strings.Contains(j.Status, fmt.Sprint(m.lastCode))) || (m.lastCode == 0 && j.Status == "") {
			r.Fail("C12", "last-attempt-status", when, "webhook %s reports last status %q, the attempt ended with code %d (0 = transport error)", u, j.Status, m.lastCode)
		}
	}
}
