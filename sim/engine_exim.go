package verifsim

import (
	"bytes"
	"compress/gzip"
	"encoding/csv"
	"fmt"
	"io"
	"os"
	"path/filepath"
	"strconv"
	"strings"

	"github.com/bitcoin-sv/block-headers-service/config"
	"github.com/bitcoin-sv/block-headers-service/database"
	"github.com/bitcoin-sv/block-headers-service/internal/chaincfg"
	"github.com/bitcoin-sv/block-headers-service/internal/chaincfg/chainhash"
)

// eximsim: export of generated stores, import into an empty database (start-up path database.Init with
// prepared_db=true), corrupted files, second start after a refused import, import on a non-empty database.
// Serves C17.

func init() {
	register(&Engine{Name: "eximsim", Props: []string{"C17"}, Exec: eximsimExec})
}

func gunzipBytes(b []byte) ([]byte, error) {
	zr, err := gzip.NewReader(bytes.NewReader(b))
	if err != nil {
		return nil, err
	}
	return io.ReadAll(zr)
}

func gzipBytes(b []byte) []byte {
	var buf bytes.Buffer
	zw := gzip.NewWriter(&buf)
	_, _ = zw.Write(b)
	_ = zw.Close()
	return buf.Bytes()
}

func eximsimExec(r *Run) {
	t := r.T
	w := NewWorld(r)
	defer w.Destroy()
	oldCk := config.Checkpoints
	defer func() { config.Checkpoints = oldCk }()
	oldWd, _ := os.Getwd()
	if err := os.Chdir(w.Dir); err != nil {
		Infra("chdir: %v", err)
	}
	defer func() { _ = os.Chdir(oldWd) }()
	w.Open()
	h := NewHist(r, w)
	r.Opt = withOpt(r.Opt, "nozero", "1")
	h.DrawCfg(20)
	h.cfg.PRestart = 0
	h.cfg.Extremes = t.Chance(2, 3, "extremes")
	if t.Chance(1, 10, "big-store") {
		h.ExtendBest(t.Range(480, 1100, "big-len")) // more than one 500-row import batch
		r.Probe("multi-batch-import")
	}
	for i := 0; h.StepOp(i); i++ {
	}
	lc := h.m.LongestChain()
	r.Cfg["chain"] = len(lc)
	r.Cfg["stored"] = len(h.m.Headers)
	nonLongest := len(h.m.Headers) - len(lc)
	// ---------------- an earlier export that failed part-way (its target directory does not exist): the export
	// that follows, of a SHORTER store, must not be influenced by what the failed one left in the temp directory
	if t.Chance(1, 3, "failed-export-before") && len(lc) >= 4 {
		r.Step++
		w.Cfg.Db.PreparedDbFilePath = "no-such-dir/export.csv.gz"
		err := database.ExportHeaders(w.Cfg, &w.Log)
		r.Logf("export into a missing directory -> err=%v", err != nil)
		r.Fault("failed-export-before")
		// store B: a strict prefix of the longest chain, in its own database
		k := t.Range(1, len(lc)-2, "prefix-store-len")
		bw := &World{R: r, Dir: w.Dir, DBPath: filepath.Join(w.Dir, "prefix.db"), Sniffer: &panicSniffer{}}
		bw.Log = w.Log
		copyFile(templateDB, bw.DBPath)
		bw.Cfg = baseConfig(bw.DBPath)
		bw.Open()
		for _, x := range lc[1 : k+1] {
			if _, err := bw.Svc.Chains.Add(toSource(x.Raw)); err != nil {
				Infra("prefix store: %v", err)
			}
		}
		bw.Close()
		bw.Cfg.Db.PreparedDbFilePath = "prefix.csv.gz"
		if err := database.ExportHeaders(bw.Cfg, &bw.Log); err != nil {
			r.Fail("C17", "export-failed", "after-failed-export", "ExportHeaders failed: %v", err)
		}
		rawB, _ := os.ReadFile(filepath.Join(w.Dir, "prefix.csv.gz"))
		csvB, err := gunzipBytes(rawB)
		recsB, err2 := csv.NewReader(bytes.NewReader(csvB)).ReadAll()
		if err != nil || err2 != nil || len(recsB) != k+2 {
			r.Fail("C17", "export-content", "after-failed-export", "after an earlier export had failed, the export of a store with a longest chain of %d headers produced %d records (gzip err %v, csv err %v)", k+1, len(recsB)-1, err, err2)
		}
		for i, x := range lc[:k+1] {
			rec := recsB[i+1]
			if rec[1] != x.Raw.Merkle.String() || rec[2] != fmt.Sprint(x.Raw.Nonce) {
				r.Fail("C17", "export-content", "after-failed-export|row", "record %d of the export is %v, the store has merkle %s nonce %d at that height", i, rec, x.Raw.Merkle, x.Raw.Nonce)
			}
		}
		if bw.ro != nil {
			_ = bw.ro.Close()
		}
	}
	// ---------------- export
	expFile := "export.csv.gz"
	w.Cfg.Db.PreparedDbFilePath = expFile
	r.Step++
	if err := database.ExportHeaders(w.Cfg, &w.Log); err != nil {
		r.Fail("C17", "export-failed", "error", "ExportHeaders failed on a store of %d headers: %v", len(h.m.Headers), err)
	}
	raw, err := os.ReadFile(filepath.Join(w.Dir, expFile))
	if err != nil {
		r.Fail("C17", "export-failed", "no-file", "ExportHeaders produced no file: %v", err)
	}
	csvBytes, err := gunzipBytes(raw)
	if err != nil {
		r.Fail("C17", "export-failed", "not-gzip", "exported file is not a valid gzip stream: %v", err)
	}
	recs, err := csv.NewReader(bytes.NewReader(csvBytes)).ReadAll()
	if err != nil || len(recs) != len(lc)+1 {
		r.Fail("C17", "export-content", "row-count", "exported CSV has %d records (err %v) for a longest chain of %d headers", len(recs)-1, err, len(lc))
	}
	r.Logf("export chain=%d stored=%d", len(lc), len(h.m.Headers))
	// checkpoint on the generated chain (existing seam: config.Checkpoints)
	ck := t.Range(0, len(lc)-1, "checkpoint-height")
	ckHash := chainhash.Hash(lc[ck].Hash)
	config.Checkpoints = []chaincfg.Checkpoint{{Height: int32(ck), Hash: &ckHash}}
	r.Cfg["checkpoint"] = ck

	// p2p.disable_checkpoints is a setting of the sync engine; the import's newest-checkpoint check does not depend on it
	// (wave 9, C17-m7: "respect disable_checkpoints" in validateDbConsistency)
	noP2PCk := t.Chance(1, 3, "p2p-disable-checkpoints")
	r.Cfg["p2p_disable_checkpoints"] = noP2PCk
	importInto := func(dbName, file string) (*World, error) {
		iw := &World{R: r, Dir: w.Dir, DBPath: filepath.Join(w.Dir, dbName), Sniffer: &panicSniffer{}}
		iw.Log = w.Log
		iw.Cfg = baseConfig(iw.DBPath)
		iw.Cfg.Db.PreparedDb = true
		iw.Cfg.Db.PreparedDbFilePath = file
		if iw.Cfg.P2P != nil {
			iw.Cfg.P2P.DisableCheckpoints = noP2PCk
		}
		var db interface{ Close() error }
		var ierr error
		pan, pv, st := guard(func() {
			d, e := database.Init(iw.Cfg, &iw.Log)
			ierr = e
			if e == nil {
				db = d
			}
		})
		if pan {
			r.Fail("C17", "panic", "Init@"+panicSite(st), "database.Init(prepared_db) panicked: %v", pv)
		}
		if db != nil {
			_ = db.Close()
		}
		return iw, ierr
	}
	closeRO := func(iw *World) {
		if iw.ro != nil {
			_ = iw.ro.Close()
			iw.ro = nil
		}
	}
	// ---------------- clean round trip
	r.Step++
	iw, ierr := importInto("import.db", expFile)
	if ierr != nil {
		r.Fail("C17", "import-refused-good-file", "clean", "importing the exported file failed: %v", ierr)
	}
	rows := iw.Snapshot()
	closeRO(iw)
	if len(rows) != len(lc) {
		r.Fail("C17", "roundtrip", "row-count", "imported %d rows, exported longest chain has %d", len(rows), len(lc))
	}
	for _, x := range lc {
		row, ok := rows[x.HashStr()]
		if !ok {
			r.Fail("C17", "roundtrip", "missing", "longest-chain header %s (height %d) is missing after import", short(x.Hash), x.Height)
		}
		ts, _ := parseDBTime(row.Timestamp)
		if row.Height != int64(x.Height) || row.State != LLongest || row.Cumulated != x.Cum.String() || row.Chainwork != x.Work.String() ||
			row.Prev != x.Raw.Prev.String() || row.Merkle != x.Raw.Merkle.String() || row.Version != int64(x.Raw.Version) ||
			row.Nonce != int64(x.Raw.Nonce) || row.Bits != int64(x.Raw.Bits) || ts != int64(x.Raw.Time) {
			r.Fail("C17", "roundtrip", "fields", "header %s after import: %+v; exported header: height %d cum %s raw %+v", short(x.Hash), row, x.Height, x.Cum, x.Raw)
		}
	}
	r.Logf("roundtrip ok rows=%d checkpoint=%d", len(rows), ck)
	// ---------------- a database that already holds headers is never overwritten
	r.Step++
	before := w.TableDigest("headers")
	w.Close()
	w.Cfg.Db.PreparedDb = true
	db2, err := database.Init(w.Cfg, &w.Log)
	if err == nil {
		_ = db2.Close()
	}
	w.Cfg.Db.PreparedDb = false
	if after := w.TableDigest("headers"); after != before {
		r.Fail("C17", "overwritten", "non-empty-db", "start-up with prepared_db=true changed a database that already holds %d headers (init err %v)", len(h.m.Headers), err)
	}
	w.Open()
	// ---------------- ... also when all it holds is the genesis header: a node started once without a prepared file
	// and restarted with one before it had synced anything
	if t.Chance(1, 3, "genesis-only-target") {
		r.Step++
		gw := &World{R: r, Dir: w.Dir, DBPath: filepath.Join(w.Dir, "genesis-only.db"), Sniffer: &panicSniffer{}}
		gw.Log = w.Log
		gw.Cfg = baseConfig(gw.DBPath)
		if d0, e0 := database.Init(gw.Cfg, &gw.Log); e0 != nil {
			Infra("genesis-only database: %v", e0)
		} else {
			_ = d0.Close()
		}
		g0 := gw.TableDigest("headers")
		n0 := len(gw.Snapshot())
		closeRO(gw)
		r.Probe("import-onto-genesis-only-store")
		// with the good file, or with one that must be refused (its block at the checkpoint height differs)
		refusable := t.Chance(1, 2, "genesis-only-bad-file")
		savedCk := config.Checkpoints
		if refusable {
			wrong := chainhash.Hash(h.uniqueHash("wrong-checkpoint"))
			config.Checkpoints = []chaincfg.Checkpoint{{Height: int32(ck), Hash: &wrong}}
		}
		_, gerr := importInto("genesis-only.db", expFile)
		config.Checkpoints = savedCk
		if g1 := gw.TableDigest("headers"); g1 != g0 {
			left := len(gw.Snapshot())
			closeRO(gw)
			r.Fail("C17", "overwritten", fmt.Sprintf("genesis-only-db,refusable-file=%v", refusable), "start-up with prepared_db=true changed a database that already held %d header (the genesis header): %d rows now (init err %v)", n0, left, gerr)
		}
		closeRO(gw)
	}
	// ---------------- corrupted files
	nbad := t.Range(1, 3, "n-bad")
	badKinds := map[string]bool{}
	for b := 0; b < nbad; b++ {
		r.Step++
		recs2 := make([][]string, len(recs))
		for i := range recs {
			recs2[i] = append([]string{}, recs[i]...)
		}
		kind := []string{"unparsable-field", "out-of-range", "wrong-columns", "value-below-checkpoint", "value-above-checkpoint", "delete-row", "duplicate-row", "gzip-truncated", "gzip-bitflip", "empty-file", "checkpoint-mismatch", "swap-rows"}[t.Pick([]int{14, 10, 8, 14, 6, 8, 6, 8, 8, 4, 8, 6}, "bad-kind")]
		mustFail := true
		var file []byte
		row := 1 + t.Draw(len(lc), "bad-row") // record index (0 is the column line)
		col := t.Draw(5, "bad-col")
		desc := kind
		build := func() []byte {
			var buf bytes.Buffer
			cw := csv.NewWriter(&buf)
			_ = cw.WriteAll(recs2)
			cw.Flush()
			return gzipBytes(buf.Bytes())
		}
		switch kind {
		case "unparsable-field":
			recs2[row][col] = []string{"", "abc", "12x", "0x10", " 1", "1.5"}[t.Draw(6, "garbage")]
			if col == 1 {
				recs2[row][col] = []string{"zz", strings.Repeat("0", 65), "g" + strings.Repeat("0", 63)}[t.Draw(3, "bad-hash")]
			}
			desc = fmt.Sprintf("%s col=%d", kind, col)
			file = build()
		case "out-of-range":
			col = []int{0, 2, 3}[t.Draw(3, "range-col")]
			recs2[row][col] = map[int]string{0: "2147483648", 2: "4294967296", 3: "-1"}[col]
			desc = fmt.Sprintf("%s col=%d", kind, col)
			file = build()
		case "wrong-columns":
			if t.Chance(1, 2, "fewer") {
				recs2[row] = recs2[row][:4]
			} else {
				recs2[row] = append(recs2[row], "1")
			}
			file = build()
		case "value-below-checkpoint", "value-above-checkpoint":
			below := kind == "value-below-checkpoint"
			if below {
				row = 1 + t.Draw(ck+1, "row-below")
			} else {
				if ck+1 >= len(lc) {
					kind, below = "value-below-checkpoint", true
					row = 1 + t.Draw(ck+1, "row-below")
				} else {
					row = 2 + ck + t.Draw(len(lc)-ck-1, "row-above")
				}
			}
			col = []int{0, 2, 3, 4}[t.Draw(4, "val-col")]
			v, _ := strconv.ParseInt(recs2[row][col], 10, 64)
			nv := v + 1
			if col == 0 && v == 2147483647 || (col == 2 || col == 3) && v == 4294967295 {
				nv = v - 1
			}
			recs2[row][col] = strconv.FormatInt(nv, 10)
			mustFail = below
			desc = fmt.Sprintf("%s col=%d", kind, col)
			file = build()
		case "delete-row":
			recs2 = append(recs2[:row], recs2[row+1:]...)
			mustFail = row-1 <= ck
			desc = fmt.Sprintf("%s below-or-at-checkpoint=%v", kind, mustFail)
			file = build()
		case "duplicate-row":
			recs2 = append(recs2[:row+1], recs2[row:]...)
			mustFail = row-1 < ck
			desc = fmt.Sprintf("%s below-checkpoint=%v", kind, mustFail)
			file = build()
		case "swap-rows":
			if len(lc) < 2 {
				file = nil
				break
			}
			a := 1 + t.Draw(len(lc)-1, "swap-a")
			recs2[a], recs2[a+1] = recs2[a+1], recs2[a]
			mustFail = a-1 <= ck
			desc = fmt.Sprintf("%s at-or-below-checkpoint=%v", kind, mustFail)
			file = build()
		case "gzip-truncated":
			file = raw[:t.Draw(len(raw), "cut")]
			mustFail = false // a cut inside the trailer may still yield all rows: then the content must be the original
		case "gzip-bitflip":
			file = append([]byte{}, raw...)
			file[t.Draw(len(file), "flip-byte")] ^= 1 << uint(t.Draw(8, "flip-bit"))
			mustFail = false
		case "empty-file":
			file = []byte{}
		case "checkpoint-mismatch":
			// the file is fine; the configured checkpoint names another hash at that height
			other := chainhash.Hash(h.uniqueHash("other-checkpoint"))
			config.Checkpoints = []chaincfg.Checkpoint{{Height: int32(ck), Hash: &other}}
			file = raw
		}
		if file == nil && kind != "empty-file" {
			continue
		}
		badKinds[kind] = true
		r.Fault(kind)
		name := fmt.Sprintf("bad%d.csv.gz", b)
		if err := os.WriteFile(filepath.Join(w.Dir, name), file, 0o644); err != nil {
			Infra("write bad file: %v", err)
		}
		dbName := fmt.Sprintf("bad%d.db", b)
		biw, berr := importInto(dbName, name)
		r.Logf("import %s -> err=%v", desc, berr != nil)
		left := biw.Snapshot()
		closeRO(biw)
		sig := kind
		if berr == nil {
			if mustFail {
				r.Fail("C17", "bad-file-accepted", sig, "start-up accepted a file with %s (%d rows now in the database)", desc, len(left))
			}
			// accepted: then it must be exactly a chain the file describes; for container-level corruption that is the original
			if kind == "gzip-truncated" || kind == "gzip-bitflip" {
				if len(left) != len(lc) {
					r.Fail("C17", "bad-file-accepted", sig+"|partial", "a damaged gzip file was accepted with %d of %d rows", len(left), len(lc))
				}
				for _, x := range lc {
					if _, ok := left[x.HashStr()]; !ok {
						r.Fail("C17", "bad-file-accepted", sig+"|different", "a damaged gzip file was accepted with different content")
					}
				}
			}
		} else {
			// second start on the same database with the same settings
			r.Step++
			_, serr := importInto(dbName, name)
			left2 := biw.Snapshot()
			closeRO(biw)
			r.Logf("second start -> err=%v rows-left=%d", serr != nil, len(left2))
			if serr == nil && len(left2) > 0 {
				r.Fail("C17", "second-start-accepts-leftovers", sig, "the import of a file with %s was refused (%v), but the next start on the same database succeeded and serves the %d rows the refused import left behind", desc, berr, len(left2))
			}
			r.Probe("second-start")
		}
		if kind == "checkpoint-mismatch" {
			config.Checkpoints = []chaincfg.Checkpoint{{Height: int32(ck), Hash: &ckHash}}
		}
		// the operator puts the RIGHT file in place and starts again on the same database: whatever the refused import
		// left behind (rows, temporary indexes, pragmas) must not stand in the way - the database ends up exactly as
		// after an import into an empty one
		if berr != nil && t.Chance(1, 2, "good-file-after-refused") {
			r.Step++
			_, gerr := importInto(dbName, expFile)
			got := biw.Snapshot()
			closeRO(biw)
			r.Probe("good-file-after-refused-import")
			if gerr != nil {
				r.Fail("C17", "good-file-refused-after-bad", kind, "after the import of a file with %s had been refused, the import of the exported file into the same database fails: %v", desc, gerr)
			}
			if len(got) != len(lc) {
				r.Fail("C17", "good-file-refused-after-bad", kind+"|rows", "after a refused import (%s) the exported file was imported into the same database: %d rows, the export has %d", desc, len(got), len(lc))
			}
			for _, x := range lc {
				if row, ok := got[x.HashStr()]; !ok || row.State != LLongest || row.Height != int64(x.Height) || row.Cumulated != x.Cum.String() {
					r.Fail("C17", "good-file-refused-after-bad", kind+"|fields", "after a refused import (%s) and the import of the exported file, header %s is %+v", desc, short(x.Hash), row)
				}
			}
		}
	}
	r.Shape = append(h.ShapeLines(), fmt.Sprintf("ck=%d bad=%v", ck, badKinds))
	r.Nontrivial = nonLongest >= 1 && len(lc) >= 3 && len(badKinds) >= 1
}
