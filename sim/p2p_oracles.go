package verifsim

import (
	"fmt"
	"strings"
	"time"

	"github.com/bitcoin-sv/block-headers-service/config"
)

// setupMisbehaviour turns one non-honest node into a node that serves a forbidden header, or a branch that
// contradicts a checkpoint (C07; the forbidden variant also provokes bans for C18 "the real way").
func (g *p2pRig) setupMisbehaviour(honestChain []*MHeader) {
	t := g.t
	addNode := func() {
		g.nodes = append(g.nodes, &simNode{idx: len(g.nodes), ip: []byte{byte(20 + len(g.nodes)), byte(10 + len(g.nodes)), 1, byte(1 + len(g.nodes))}, cap: g.capAll, tree: g.tree,
			silentAt: -1, closeAt: -1, forbidAt: -1, nonce: uint64(1000 + 100*len(g.nodes)), announce: "inv"})
	}
	if len(g.nodes) < 2 {
		addNode() // a node for the purpose
	}
	first := g.nodes[1+t.Draw(len(g.nodes)-1, "bad-node")]
	g.makeBad(first, honestChain, 1)
	// a second misbehaving node (C07): its own forbidden header, or its own - different - contradiction of a
	// checkpoint; what the service learnt from the first offender must not make it blind to the second
	if g.focus == "C07" && t.Chance(1, 3, "second-bad-node") {
		if len(g.nodes) < 3 {
			addNode()
		}
		var rest []*simNode
		for _, x := range g.nodes[1:] {
			if x != first {
				rest = append(rest, x)
			}
		}
		g.makeBad(rest[t.Draw(len(rest), "bad-node-2")], honestChain, 2)
		g.r.Probe("two-misbehaving-nodes")
	}
	// such a node only ever talks forked scenarios: one reply must be able to carry the whole branch
	for _, x := range g.nodes {
		x.cap = 2000
	}
	g.capAll = 2000
}

func (g *p2pRig) makeBad(n *simNode, honestChain []*MHeader, ord int) {
	t := g.t
	L := len(honestChain)
	mkey := "misbehaviour"
	if ord > 1 {
		mkey = fmt.Sprintf("misbehaviour_%d", ord)
	}
	n.silentAt, n.closeAt = -1, -1
	kind := "forbidden"
	if g.focus == "C07" && len(g.ckpts) > 0 && !g.disableCk && t.Chance(1, 2, "contra-checkpoint") {
		kind = "contra"
	}
	base := g.start
	if !g.fresh {
		base = g.start.Add(-72 * time.Hour)
	}
	switch kind {
	case "forbidden":
		// F forks off the honest chain at a drawn height; the node's best chain is prefix + F + descendants, made
		// longer than the honest chain so that the node is an attractive sync peer
		at := t.Range(0, L-1, "forbidden-at")
		parent := g.tree.Genesis
		if at > 0 {
			parent = honestChain[at-1]
		}
		F := g.mine(parent, base.Add(-time.Duration(L-at)*10*time.Minute), bitsNormal[0])
		g.forbidden[F.Hash] = true
		tip := F
		for i, k := 0, t.Range(0, 3, "forbidden-descendants"); i < k; i++ {
			tip = g.mine(tip, base.Add(-time.Duration(L-at-i-1)*10*time.Minute), bitsNormal[0])
		}
		// pad with further descendants so that the advertised height exceeds the honest one in half of the runs
		if t.Chance(1, 2, "forbidden-longer") {
			for tip.Height <= honestChain[L-1].Height {
				tip = g.mine(tip, base.Add(-time.Minute), bitsNormal[0])
			}
		}
		n.role, n.best = "forbidden", tip
		n.forbidden = F
		if at > 0 {
			g.r.Cfg["forbidden_after_accepted"] = true
		}
		g.r.Cfg[mkey] = fmt.Sprintf("n%d serves forbidden header at height %d", n.idx, F.Height)
	case "contra":
		// a branch that forks below a checkpoint and reaches its height with a different header
		lastCk := int(g.ckpts[len(g.ckpts)-1].Height)
		at := t.Range(0, lastCk-1, "contra-fork-at") // fork parent height
		ckH := 0
		for _, ck := range g.ckpts {
			if int(ck.Height) > at {
				ckH = int(ck.Height)
				break
			}
		}
		parent := g.tree.Genesis
		if at > 0 {
			parent = honestChain[at-1]
		}
		tip := parent
		for int(tip.Height) < ckH+t.Range(0, 2, "contra-extra") {
			tip = g.mine(tip, base.Add(-time.Duration(L-int(tip.Height))*10*time.Minute-30*time.Second), bitsNormal[0])
		}
		// (never more work than the honest chain: past the checkpoint nothing would stop such a branch from winning)
		if tip.Height >= g.honest.best.Height {
			honestTip := g.honest.best
			for honestTip.Height <= tip.Height {
				honestTip = g.mine(honestTip, base.Add(-30*time.Second), bitsNormal[0])
			}
			g.honest.best = honestTip
		}
		n.role, n.best = "contra", tip
		g.r.Cfg[mkey] = fmt.Sprintf("n%d contradicts checkpoint %d (fork parent height %d)", n.idx, ckH, at)
	}
}

// afterDeliver is called after node->service bytes were handed to the service.
func (g *p2pRig) afterDeliver(c *nodeConn) {
	host := c.node.ip.String()
	now := g.now()
	if c.misbehaved != "" && !c.misDelivered && c.misEnd > 0 && c.nodeEnd.Written()-c.nodeEnd.PendingOut() >= c.misEnd {
		c.misDelivered = true
		c.ghAtMis = len(c.getHdrs)
		// a contradiction that arrives after the (single) checkpoint's own header has been stored meanwhile - the
		// reply was built before, another peer's matching header overtook it - meets a service that has left
		// checkpoint mode: recorded separately
		if c.misbehaved == "contra" && len(g.ckpts) == 1 {
			if row, have := g.w.Snapshot()[g.ckpts[0].Hash.String()]; have && row.State == LLongest {
				c.misbehaved = "contra|checkpoint-already-matched"
				g.r.Probe("contradiction-after-the-checkpoint-was-matched")
			}
		}
		if c.misbehaved == "forbidden" {
			g.banUntil[host] = now.Add(g.w.Cfg.P2P.BanDuration)
			g.r.Logf("model: host %s banned until +%v", host, g.w.Cfg.P2P.BanDuration)
		}
	}
	// (the admission decision is taken when the version message has arrived, whatever else - a verack on an outbound
	// connection - is still on its way behind it)
	if !c.versionDelivered && c.sentVer && c.nodeEnd.Written()-c.nodeEnd.PendingOut() >= c.verEnd {
		c.versionDelivered = true
		exp := "admit"
		live, total := 0, 0
		for h, l := range g.admitted {
			for _, x := range l {
				if x.admittedLive {
					total++
					if h == host {
						live++
					}
				}
			}
		}
		if until, ok := g.banUntil[host]; ok && now.Before(until) {
			exp = "refuse-banned"
		} else if live >= config.MaxPeersPerIP {
			exp = "refuse-per-host"
		} else if total >= config.MaxPeers {
			exp = "refuse-total"
		}
		if ok := g.banUntil[host]; !ok.IsZero() && !now.Before(ok) && exp == "admit" {
			g.r.Probe("ban-expired-readmitted")
		}
		c.expect, c.verdictPending = exp, true
	}
}

// admissionVerdicts compares, at the quiescent point after a version message was delivered, what the service
// did with the connection against the counting model; it also keeps the model's live sets current.
func (g *p2pRig) admissionVerdicts() {
	r := g.r
	for _, c := range g.conns {
		host := c.node.ip.String()
		if c.verdictPending {
			c.verdictPending = false
			refused := c.dead
			// the expectation was formed when the version message was handed over; if the service itself dropped
			// a peer of that host (or any peer, for the total limit) in this very step, the slot was free by the
			// time it decided: recount with what is alive now
			if !refused && (c.expect == "refuse-per-host" || c.expect == "refuse-total") {
				liveHost, liveAll := 0, 0
				for h, l := range g.admitted {
					for _, x := range l {
						if x.admittedLive && !x.dead && !x.closed {
							liveAll++
							if h == host {
								liveHost++
							}
						}
					}
				}
				if (c.expect == "refuse-per-host" && liveHost < config.MaxPeersPerIP) || (c.expect == "refuse-total" && liveAll < config.MaxPeers) {
					c.expect = "admit"
					r.Probe("slot-freed-in-the-same-step")
				}
			}
			switch {
			case c.expect == "admit" && refused && !c.closed:
				r.Fail("C18", "admission", "refused-but-model-admits", "%s from host %s was closed by the service right after its version message; model: admitted (live from host %d, bans %v)", c, host, g.liveFrom(host), g.banUntil)
			case c.expect != "admit" && !refused && !c.closed:
				prop := "C18"
				if c.banProbe && c.expect == "refuse-banned" && g.focus == "C07" {
					// "the peer that sent it is disconnected (and banned by the default engine)"
					r.Fail("C07", "ban-not-applied", "offender-returns", "%s: host %s sent a forbidden header a moment ago and is admitted again (live from host %d)", c, host, g.liveFrom(host))
				}
				r.Fail(prop, "admission", "admitted-but-model-"+c.expect, "%s from host %s was admitted; model says %s (live from host %d)", c, host, c.expect, g.liveFrom(host))
			}
			if c.expect == "admit" && !refused {
				c.admittedLive = true
				g.admitted[host] = append(g.admitted[host], c)
			} else if c.expect == "refuse-total" {
				r.Probe("total-limit-hit")
			} else if c.expect == "refuse-per-host" {
				r.Probe("per-host-limit-hit")
			} else if c.expect == "refuse-banned" {
				r.Probe("banned-host-refused")
			}
		}
		if c.admittedLive && (c.closed || c.dead) {
			c.admittedLive = false
		}
		// misbehaving connections must be closed by the service once the offending reply was delivered
		// (a contradiction of a checkpoint with several checkpoints configured is blurred by the recorded
		// pointer-lag finding: the signature says which case it is)
		det := c.misbehaved
		if strings.HasPrefix(c.misbehaved, "contra") && len(g.ckpts) >= 2 {
			det = "contra|checkpoints>=2"
		}
		if c.misDelivered && !c.dead && !c.closed {
			r.Fail("C07", "not-disconnected", det, "%s delivered a %s header and is still connected", c, c.misbehaved)
		}
		if c.misDelivered && len(c.getHdrs) > c.ghAtMis {
			r.Fail("C07", "requested-after-misbehaviour", det, "the service sent %d further getheaders to %s after its %s header", len(c.getHdrs)-c.ghAtMis, c, c.misbehaved)
		}
	}
	// the forbidden header is never served
	for fh := range g.forbidden {
		for _, p := range []string{"/api/v1/chain/header/", "/api/v1/chain/header/state/"} {
			if code, body := g.w.HTTP("GET", p+fh.String(), nil, nil); code != 404 {
				r.Fail("C07", "forbidden-served", p, "GET %s<forbidden hash> -> %d %s", p, code, truncate(string(body), 100))
			}
		}
	}
	// descendants of a forbidden header can only ever be orphans
	if len(g.forbidden) > 0 {
		rows := g.w.Snapshot()
		for _, x := range g.tree.Headers {
			row, ok := rows[x.HashStr()]
			if !ok {
				continue
			}
			for a := x.Parent; a != nil; a = a.Parent {
				if g.forbidden[a.Hash] && row.State != LOrphan {
					r.Fail("C07", "forbidden-descendant-not-orphan", row.State, "%s descends from the forbidden header and is stored as %s", short(x.Hash), row.State)
				}
			}
		}
	}
}

func (g *p2pRig) liveFrom(host string) int {
	n := 0
	for _, x := range g.admitted[host] {
		if x.admittedLive {
			n++
		}
	}
	return n
}
