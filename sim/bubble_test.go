package verifsim

import (
	"fmt"
	"strings"
	"testing"
	"testing/synctest"
)

var theT *testing.T

func init() {
	runInBubble = func(body func()) {
		if theT == nil {
			panic(HarnessError{"no *testing.T for synctest bubble"})
		}
		defer func() {
			if p := recover(); p != nil {
				s := fmt.Sprint(p)
				// goroutines of a "crashed" generation or of the code's own design (DonePeer after shutdown)
				// may stay parked for good; that is expected and not a verdict.
				if strings.Contains(s, "blocked goroutines remain") || strings.Contains(s, "deadlock: main bubble goroutine has exited") {
					return
				}
				panic(p)
			}
		}()
		// a sub-test per bubble: in -race builds testing ends a test in which the detector reported a race with
		// FailNow (Goexit); that must only end the bubble, not the worker loop
		theT.Run("bubble", func(st *testing.T) {
			defer func() {
				if p := recover(); p != nil {
					s := fmt.Sprint(p)
					if strings.Contains(s, "blocked goroutines remain") || strings.Contains(s, "deadlock: main bubble goroutine has exited") {
						return
					}
					panic(p)
				}
			}()
			synctest.Test(st, func(*testing.T) { body() })
		})
	}
}
