package verifsim

import (
	"bytes"
	"encoding/binary"
	"fmt"
	"net"
	"time"

	"github.com/bitcoin-sv/block-headers-service/internal/chaincfg/chainhash"
	"github.com/bitcoin-sv/block-headers-service/internal/wire"
)

// Scripted Bitcoin-protocol nodes: deterministic state machines owned by the scheduler (no goroutines),
// speaking internal/wire over simConn. All nodes' chains are branches of one block tree per run.

const simPver = uint32(70013)

type simNode struct {
	idx                int
	role               string // honest | lagging | forked | staller | disconnector | forbidden | contra
	ip                 net.IP
	best               *MHeader
	cap                int    // max headers per reply
	announce           string // inv | headers
	invTrail           int    // how many ancestors an inv announcement lists before the new block
	invTx              bool   // inv announcements end with a transaction entry
	gone               bool   // the node has left the network (healing mode others-leave): it neither connects nor answers dials
	ignoresSendHeaders bool   // keeps announcing by inv after the service's sendheaders (a pre-BIP-130 node)
	skew               time.Duration
	silentAt           int // goes silent after having received this many messages (-1 never)
	closeAt            int // closes after this many messages (-1 never)
	conns              []*nodeConn
	tree               *Model
	forbidAt           int
	forbidden          *MHeader
	nonce              uint64
}

type recvMsg struct {
	step int
	msg  wire.Message
}

type nodeConn struct {
	id                int
	node              *simNode
	nodeEnd           *simConn
	svcEnd            *simConn
	inbuf             []byte
	inbound           bool // inbound from the service's point of view (the node dialled)
	gotVer            bool
	gotVerack         bool
	sentVer           bool
	msgsIn            int
	silent            bool
	partitioned       bool // bytes queue in both directions but the scheduler does not deliver them
	closed            bool // closed by the node
	dead              bool // observed closed by the service
	recv              []recvMsg
	getHdrs           []*wire.MsgGetHeaders // every getheaders the service sent on this connection
	hdrReplies        []*wire.MsgHeaders    // headers messages the service sent (answers to the node's getheaders)
	openedAt          int
	handshakeDoneStep int
	wantsHeaders      bool
	deferred          []wire.Message
	known             *MHeader // highest header of the node's chain the service is known to have (per connection)
	connFlags
}

func (c *nodeConn) handshaken() bool { return c.gotVer && c.gotVerack }

func (n *simNode) addr(port int) *net.TCPAddr { return &net.TCPAddr{IP: n.ip, Port: port} }

// chainOf returns genesis..tip of the node's best chain.
func chainOf(tip *MHeader) []*MHeader {
	var rev []*MHeader
	for h := tip; h != nil; h = h.Parent {
		rev = append(rev, h)
	}
	for i, j := 0, len(rev)-1; i < j; i, j = i+1, j-1 {
		rev[i], rev[j] = rev[j], rev[i]
	}
	return rev
}

func toWireHeader(h *MHeader) *wire.BlockHeader {
	return &wire.BlockHeader{Version: h.Raw.Version, PrevBlock: chainhash.Hash(h.Raw.Prev), MerkleRoot: chainhash.Hash(h.Raw.Merkle),
		Timestamp: time.Unix(int64(h.Raw.Time), 0), Bits: h.Raw.Bits, Nonce: h.Raw.Nonce}
}

func (c *nodeConn) send(msg wire.Message) {
	if c.closed || c.dead {
		return
	}
	var buf bytes.Buffer
	if err := wire.WriteMessage(&buf, msg, simPver, wire.MainNet); err != nil {
		Infra("scripted node cannot encode %s: %v", msg.Command(), err)
	}
	_, _ = c.nodeEnd.Write(buf.Bytes())
	if c.misbehaved != "" && !c.misDelivered && c.misEnd == 0 {
		c.misEnd = c.nodeEnd.Written() // the offending message ends here in this connection's byte stream
	}
	// One message per delivery: when a segment carries two messages, the service's reader goroutine works on the
	// second while its sync manager still reacts to the first (it may hang up, or send a request whose stall
	// deadline the second message clears or not); which of them wins is decided inside the service, not by the
	// simulator. Coalesced segments are left to the race class (co-scheduled steps) and to the wire engine.
	c.nodeEnd.MarkStop()
}

func (c *nodeConn) sendVersion(now time.Time) {
	n := c.node
	me := wire.NewNetAddressIPPort(n.ip, 8333, wire.SFNodeNetwork)
	you := wire.NewNetAddressIPPort(net.IPv4(10, 0, 0, 1), 8333, 0)
	v := wire.NewMsgVersion(me, you, n.nonce+uint64(c.id), chainOf(n.best)[len(chainOf(n.best))-1].Height)
	v.Services = wire.SFNodeNetwork
	v.UserAgent = "/simnode:0.1/"
	v.Timestamp = time.Unix(now.Add(n.skew).Unix(), 0)
	c.send(v)
	c.sentVer = true
	c.verEnd = c.nodeEnd.Written() // the version message ends here in this connection's byte stream
}

// parse pulls complete frames out of the bytes the service wrote.
func (c *nodeConn) parse() []wire.Message {
	c.inbuf = append(c.inbuf, c.nodeEnd.TakeAll()...)
	var out []wire.Message
	for len(c.inbuf) >= 24 {
		l := int(binary.LittleEndian.Uint32(c.inbuf[16:20]))
		if len(c.inbuf) < 24+l {
			break
		}
		frame := c.inbuf[:24+l]
		c.inbuf = c.inbuf[24+l:]
		msg, _, err := wire.ReadMessage(bytes.NewReader(frame), simPver, wire.MainNet)
		if err != nil {
			// the service must only send well-formed frames; unknown to the node = ignore, malformed = harness alarm
			if _, ok := err.(*wire.MessageError); ok {
				continue
			}
			Infra("scripted node cannot decode a frame from the service: %v", err)
		}
		out = append(out, msg)
	}
	return out
}

// headersReply is the conformant getheaders answer: the headers of the node's best chain that follow the first
// locator hash it knows (on its best chain), all that remain or at most cap, ending at the stop hash.
func (n *simNode) headersReply(gh *wire.MsgGetHeaders) []*MHeader {
	chain := chainOf(n.best)
	onChain := map[Hash32]int{}
	for i, h := range chain {
		onChain[h.Hash] = i
	}
	start := 0
	for _, l := range gh.BlockLocatorHashes {
		if i, ok := onChain[Hash32(*l)]; ok {
			start = i
			break
		}
	}
	var out []*MHeader
	for i := start + 1; i < len(chain) && len(out) < n.cap; i++ {
		out = append(out, chain[i])
		if chain[i].Hash == Hash32(gh.HashStop) {
			break
		}
	}
	return out
}

func (c *nodeConn) String() string {
	dir := "in"
	if !c.inbound {
		dir = "out"
	}
	return fmt.Sprintf("n%d.c%d(%s)", c.node.idx, c.id, dir)
}

// extra per-connection bookkeeping used by the admission / misbehaviour oracles
type connFlags struct {
	versionDelivered bool
	expect           string // admit | refuse-banned | refuse-per-host | refuse-total
	verdictPending   bool
	admittedLive     bool
	misbehaved       string // forbidden | contra : the reply carrying it has been queued
	misDelivered     bool
	banProbe         bool // opened right after an offence of its host: the ban must be in force
	verEnd           int  // offset at which the node's version message ends
	nGhChecked       int  // getheaders of the service seen on this connection
	misEnd           int  // offset (bytes written by the node) at which the offending message ends
	ghAtMis          int
}
